"""C06 — tank volume integration and level limits: update_tank_heads, update_network_previous_values,
Tank.get_volume / level, TankLevelCondition.evaluate, WNTRSimulator._get_all_tank_controls.
Cylindrical tanks: for every diameter. Volume-curve tanks: for a curve of three points with symbolic, strictly increasing
coordinates (np.interp modelled as documented: piecewise linear, end values held; the repository's _interp_extend is
interpreted from its source) - the volume identity, get_volume and the partial-step bound of the level controls; curves
with more points are covered by the bounded stand-in only."""
import math
import types

import z3

from pyvc.core import Contract, Case
from pyvc.runner import Lemma, Bounded
from pyvc.values import SV, SymObj, SymSeq, NativeModel, real_val
from pyvc import library

import wntr.sim.hydraulics as hyd
from wntr.sim.core import WNTRSimulator
from wntr.network import LinkStatus
from wntr.network import controls as C
from wntr.network.controls import Comparison, ControlPriority, _ControlType
from wntr.network.elements import Junction, Tank, Reservoir, Pipe, HeadPump, PowerPump, PRValve
from contracts._net import WN2, mk_node, mk_link
from contracts.c05_conditions import _NoneReg

P = ["C06"]
PI = real_val(math.pi)


def _tank(cx, name="T", **kw):
    # a tank as the simulator leaves it after a solved step: its reported demand is already net of the leak; the leak itself is some number
    f = dict(_vol_curve_name=None, _curve_reg=_NoneReg(), _leak_demand=cx.real("leak_demand_" + name))
    # Tank.__init__ sets the overflow flag; whether the tank may overflow is arbitrary (no law of C06 depends on it inside the level limits)
    f["_overflow"] = cx.bool("overflow_" + name) if cx.is_symbolic() else False
    f.update(kw)
    if cx.is_symbolic():
        # the other attributes Tank.__init__ sets are arbitrary numbers of their own (code that starts to read one of them runs, and fails its postcondition if it matters)
        for a in ("_min_level", "_max_level", "_init_level", "_min_vol", "_diameter", "_elevation"):
            if a not in f:
                f[a] = cx.real(a[1:] + "_" + name)
    return mk_node(cx, Tank, name, **f)


# ---------------------------------------------------------------------------- update_tank_heads (cylindrical)

def _update_heads_case():
    def build(cx):
        q, D, ph, h, elev = cx.real("q"), cx.real("D"), cx.real("prev_head"), cx.real("head"), cx.real("elev")
        t, pt = cx.int("sim_time"), cx.int("prev_sim_time")
        cx.assume(cx.t(D) > 0, cx.t(pt) < cx.t(t))
        tank = _tank(cx, _demand=q, _diameter=D, _prev_head=ph, _head=h, _elevation=elev)
        other = _tank(cx, "U", _demand=cx.real("q2"), _diameter=cx.real("D2"), _prev_head=cx.real("ph2"), _head=cx.real("h2"), _elevation=0.0)
        cx.assume(cx.t(cx.inputs["D2"]) > 0)
        wn = WN2(sim_time=t, prev_sim_time=pt)
        wn.declare_node("T", tank)
        wn.declare_node("U", other)
        cx.target(hyd.update_tank_heads, wn)

        def post(out):
            if not out.returned:
                return []
            newh = library.as_real(tank.fields["_head"])
            A = PI * cx.t(D) * cx.t(D) / 4
            dt = z3.ToReal(cx.t(t) - cx.t(pt))
            V = lambda head: A * (head - cx.t(elev))          # documented volume of a cylindrical tank at that level
            wr = [(o, a) for (o, a, v) in cx.path.writes]
            return [("volume_changes_by_net_inflow_times_elapsed_time", V(newh) - V(cx.t(ph)) == cx.t(q) * dt),
                    ("integrates_from_the_previous_solved_head_not_the_current_one", newh * A == cx.t(ph) * A + cx.t(q) * dt),
                    ("writes_only_the_head_of_each_tank", all(a == "_head" and o in (tank, other) for o, a in wr) and len(wr) == 2),
                    ("each_tank_uses_its_own_inflow_and_diameter",
                     library.as_real(other.fields["_head"]) * (PI * cx.t(cx.inputs["D2"]) * cx.t(cx.inputs["D2"]) / 4) ==
                     cx.t(cx.inputs["ph2"]) * (PI * cx.t(cx.inputs["D2"]) * cx.t(cx.inputs["D2"]) / 4) + cx.t(cx.inputs["q2"]) * dt)]
        cx.ensure(post)
    return Case("cylindrical", build, crosscheck=False)


# ---------------------------------------------------------------------------- volume-curve tanks (three-point curve, symbolic coordinates)

class _CurveReg(NativeModel):
    def __init__(self, curve):
        self.curve = curve

    def __getitem__(self, k):
        return self.curve

    def remove_usage(self, *a):
        pass

    def add_usage(self, *a):
        pass


class _Arr2(NativeModel):
    """np.array(list of (x, y)): a[:, 0] / a[:, 1] are the columns"""

    def __init__(self, pts):
        self.pts = pts

    def __getitem__(self, idx):
        assert isinstance(idx, tuple) and idx[0] == slice(None) and idx[1] in (0, 1), idx
        return [p_[idx[1]] for p_ in self.pts]


def _pl(x, xs, ys, extend):
    """specification: piecewise-linear interpolation through (xs, ys); beyond the ends the first / last segment is extended
    (extend=True) or the end value is held (np.interp)."""
    n = len(xs)
    seg = lambda i: ys[i] + (x - xs[i]) * (ys[i + 1] - ys[i]) / (xs[i + 1] - xs[i])
    t = seg(n - 2) if extend else ys[n - 1]
    for i in reversed(range(n - 1)):
        t = z3.If(x <= xs[i + 1], seg(i), t)
    first = seg(0) if extend else ys[0]
    return z3.If(x < xs[0], first, t)


def _vol_models():
    import numpy as np
    m = library.build_models()
    m.register(np.array, lambda interp, args, kw: _Arr2([tuple(p_) for p_ in args[0]]) if isinstance(args[0], list) and args[0] and isinstance(args[0][0], tuple) else interp._native(np.array, args, kw),
               trusted="np.array(points)[:, k] is the k-th coordinate of the points")
    m.register(np.interp, lambda interp, args, kw: SV(_pl(library.as_real(args[0]), [library.as_real(v) for v in args[1]], [library.as_real(v) for v in args[2]], False), "real"),
               trusted="np.interp is piecewise-linear interpolation holding the end values (numpy documentation)")
    m.register(np.ndim, lambda interp, args, kw: 0 if isinstance(args[0], SV) else np.ndim(args[0]))
    return m


def _curve_points(cx):
    xs = [cx.real("level%d" % i) for i in range(3)]
    ys = [cx.real("volume%d" % i) for i in range(3)]
    cx.assume(cx.t(xs[0]) < cx.t(xs[1]), cx.t(xs[1]) < cx.t(xs[2]), cx.t(ys[0]) < cx.t(ys[1]), cx.t(ys[1]) < cx.t(ys[2]))    # is_valid(): strictly increasing table
    return xs, ys


def _update_heads_curve_case():
    def build(cx):
        xs, ys = _curve_points(cx)
        q, ph, h, elev = cx.real("q"), cx.real("prev_head"), cx.real("head"), cx.real("elev")
        t, pt = cx.int("sim_time"), cx.int("prev_sim_time")
        cx.assume(cx.t(pt) < cx.t(t))
        curve = types.SimpleNamespace(points=[(a, b) for a, b in zip(xs, ys)])
        tank = _tank(cx, _demand=q, _diameter=cx.real("D"), _prev_head=ph, _head=h, _elevation=elev, _vol_curve_name="vc", _curve_reg=_CurveReg(curve))
        wn = WN2(sim_time=t, prev_sim_time=pt)
        wn.declare_node("T", tank)
        cx.target(hyd.update_tank_heads, wn)

        def post(out):
            if not out.returned:
                return []
            X, Y = [cx.t(v) for v in xs], [cx.t(v) for v in ys]
            newl = library.as_real(tank.fields["_head"]) - cx.t(elev)
            oldl = cx.t(ph) - cx.t(elev)
            dt = z3.ToReal(cx.t(t) - cx.t(pt))
            V = lambda lvl: _pl(lvl, X, Y, True)
            return [("volume_through_the_curve_changes_by_net_inflow_times_elapsed_time", V(newl) - V(oldl) == cx.t(q) * dt)]
        cx.ensure(post)
    return Case("volume_curve_three_points", build, crosscheck=False)


def _get_volume_curve_case():
    def build(cx):
        xs, ys = _curve_points(cx)
        lvl = cx.real("level")
        curve = types.SimpleNamespace(points=[(a, b) for a, b in zip(xs, ys)])
        tank = _tank(cx, _diameter=cx.real("D"), _head=cx.real("head"), _elevation=cx.real("elev"), _vol_curve_name="vc", _curve_reg=_CurveReg(curve))
        cx.target(Tank.get_volume, tank, lvl)

        def post(out):
            if not out.returned:
                return []
            X, Y = [cx.t(v) for v in xs], [cx.t(v) for v in ys]
            return [("volume_is_the_curve_at_that_level_with_the_end_segments_extended", library.as_real(out.value) == _pl(cx.t(lvl), X, Y, True))]
        cx.ensure(post)
    return Case("volume_curve_three_points", build, crosscheck=False)


def _tank_level_curve_case(rel, attr):
    """TankLevelCondition.evaluate for a volume-curve tank. Precondition = ensures of update_tank_heads (volume curve): the stored volume
    moved from V(last) to V(cur) by q * dt."""
    def build(cx):
        xs, ys = _curve_points(cx)
        last, cur, th, q, elev = cx.real("last_level"), cx.real("cur_level"), cx.real("threshold_level"), cx.real("q"), cx.real("elev")
        dt = cx.int("dt")
        X, Y = [cx.t(v) for v in xs], [cx.t(v) for v in ys]
        V = lambda lvl: _pl(lvl, X, Y, True)
        cx.assume(cx.t(dt) > 0, V(cx.t(cur)) - V(cx.t(last)) == cx.t(q) * z3.ToReal(cx.t(dt)))
        import ast as _ast
        off = elev if attr == "head" else 0.0          # the compared attribute is head (= level + elevation) or level
        add = lambda a: cx.interp.binop(_ast.Add, a, off)
        curve = types.SimpleNamespace(points=[(a, b) for a, b in zip(xs, ys)])
        tank = _tank(cx, _head=cx.interp.binop(_ast.Add, cur, elev), _elevation=elev, _demand=q, _diameter=cx.real("D"), _vol_curve_name="vc", _curve_reg=_CurveReg(curve))
        cond = cx.obj(C.TankLevelCondition, _source_obj=tank, _source_attr=attr, _relation=rel, _threshold=add(th), _backtrack=0, _last_value=add(last))
        cx.target(C.TankLevelCondition.evaluate, cond)

        def post(out):
            if not out.returned:
                return []
            CUR, LAST, TH, Q, DT = cx.t(cur), cx.t(last), cx.t(th), cx.t(q), cx.t(dt)
            up = rel in (Comparison.ge, Comparison.gt)
            holds = (CUR >= TH) if up else (CUR <= TH)
            held = (LAST >= TH) if up else (LAST <= TH)
            Bk = library.as_int(cx.interp.getattr(cond, "_backtrack"))
            crossing = z3.And(holds, z3.Not(held), Q != 0)
            landed = V(CUR) - z3.ToReal(Bk) * Q            # stored volume at (t - backtrack)
            absq = z3.If(Q >= 0, Q, -Q)
            zb = lambda v: library.truth(v) if isinstance(v, SV) else z3.BoolVal(bool(v))
            return [("true_iff_threshold_reached", zb(out.value) == holds),
                    ("no_backtrack_unless_threshold_first_reached_in_this_step", z3.Implies(z3.Not(crossing), Bk == 0)),
                    ("backtrack_within_step", z3.Implies(crossing, z3.And(Bk >= 0, Bk < DT))),
                    ("partial_step_lands_on_threshold_side_of_the_stored_volume", z3.Implies(crossing, (landed >= V(TH)) if up else (landed <= V(TH)))),
                    ("partial_step_lands_within_one_second_of_flow_past_threshold",
                     z3.Implies(crossing, z3.If(landed >= V(TH), landed - V(TH), V(TH) - landed) < absq))]
        cx.ensure(post)
    return Case("volume_curve,rel=%s,attr=%s" % (rel.name, attr), build, crosscheck=False)


def _prev_values_case():
    def build(cx):
        t = cx.int("sim_time")
        tank = _tank(cx, _head=cx.real("head"), _prev_head=cx.real("old_prev"))
        valve = mk_link(cx, PRValve, "V", None, None, _setting=cx.real("setting"), _prev_setting=cx.real("old_prev_setting"))
        wn = WN2(sim_time=t, prev_sim_time=cx.int("old_prev_time"))
        wn.declare_node("T", tank)
        wn.declare_link("V", valve)
        cx.target(hyd.update_network_previous_values, wn)

        def post(out):
            if not out.returned:
                return []
            return [("previous_time_is_the_solved_time", library.as_int(wn._prev_sim_time) == cx.t(t)),
                    ("previous_head_is_the_solved_head", library.as_real(tank.fields["_prev_head"]) == cx.t(cx.inputs["head"])),
                    ("previous_setting_snapshot", library.as_real(valve.fields["_prev_setting"]) == cx.t(cx.inputs["setting"])),
                    ("solved_state_untouched", library.as_real(tank.fields["_head"]) == cx.t(cx.inputs["head"]))]
        cx.ensure(post)
    return Case("snapshot", build, crosscheck=False)


def _get_volume_case(with_level):
    def build(cx):
        D, h, elev, lvl = cx.real("D"), cx.real("head"), cx.real("elev"), cx.real("level")
        cx.assume(cx.t(D) > 0)
        tank = _tank(cx, _diameter=D, _head=h, _elevation=elev)
        cx.target(Tank.get_volume, tank, lvl if with_level else None)

        def post(out):
            if not out.returned:
                return []
            L = cx.t(lvl) if with_level else cx.t(h) - cx.t(elev)
            ref = cx.t(D) * cx.t(D) * L
            ref = z3.If(ref >= 0, ref, -ref)
            # pi/4 is a rounded float literal in the code: equal to pi*D^2/4*level up to 1e-12 relative
            return [("cylinder_volume_is_area_times_level", cx.close(library.as_real(out.value), PI / 4 * cx.t(D) * cx.t(D) * L, ref, rel=1e-12))]
        cx.ensure(post)
    return Case("cylindrical,level_given=%s" % with_level, build, crosscheck=False)


def _init_level_case():
    def build(cx):
        elev, lvl = cx.real("elev"), cx.real("init_level")
        tank = _tank(cx, _elevation=elev, _head=cx.real("old_head"), _init_level=cx.real("old_init"))
        cx.target(_set_init_level, tank, lvl)

        def post(out):
            if not out.returned:
                return []
            return [("level_starts_at_init_level", library.as_real(out.value) == cx.t(lvl)),
                    ("head_is_elevation_plus_init_level", library.as_real(tank.fields["_head"]) == cx.t(elev) + cx.t(lvl))]
        cx.ensure(post)
    return Case("init_level_setter", build, crosscheck=False)


def _set_init_level(tank, lvl):
    tank.init_level = lvl
    return tank.level


# ---------------------------------------------------------------------------- _get_all_tank_controls

def _describe(ctl):
    """(condition description, action description, priority, control type) of a generated Control SymObj."""
    def cond(c):
        f = c.fields
        if c.cls is C.AndCondition:
            return ("and", cond(f["_condition_1"]), cond(f["_condition_2"]))
        if c.cls is C.RelativeCondition:
            return ("rel", f["_source_obj"], f["_source_attr"], f["_relation"], f["_threshold_obj"], f["_threshold_attr"])
        return (c.cls.__name__, f["_source_obj"], f["_source_attr"], f["_relation"], f["_threshold"])
    acts = ctl.fields["_then_actions"]
    a = acts[0].fields
    return cond(ctl.fields["_condition"]), (len(acts), a["_target_obj"], a["_internal_attr"], a["_value"], a["_property_attr"]), \
        ctl.fields["_priority"], ctl.fields["_control_type"]


def _tank_controls_case(kind, tank_is_start):
    """kind: plain pipe | cv pipe | pump ; orientation: tank is the start or the end node of the link."""
    def build(cx):
        minl, maxl, elev = cx.real("min_level"), cx.real("max_level"), cx.real("elev")
        tank = _tank(cx, "T", _min_level=minl, _max_level=maxl, _elevation=elev, _head=cx.real("head"))
        other = mk_node(cx, Junction, "J", _head=cx.real("other_head"))
        cls = HeadPump if kind == "pump" else Pipe
        s, e = (tank, other) if tank_is_start else (other, tank)
        link = mk_link(cx, cls, "L", s, e, _check_valve=(kind == "cv"))
        wn = WN2()
        wn.declare_node("T", tank)
        wn.declare_node("J", other)
        wn.declare_link("L", link)
        wn.inlet_all = ["L"]
        sim = cx.obj(WNTRSimulator, _wn=_WNT(wn), _Htol=0.0001524)
        cx.target(WNTRSimulator._get_all_tank_controls, sim)

        def post(out):
            if not out.returned:
                return []
            ctls = [_describe(c) for c in out.value]
            MINH, MAXH = cx.t(minl) + cx.t(elev), cx.t(maxl) + cx.t(elev)
            htol = real_val(0.0001524)
            one_way = kind in ("cv", "pump")
            # a one-way link that can only deliver INTO the tank cannot drain it; one that can only take FROM it cannot fill it
            can_drain = not (one_way and not tank_is_start)
            can_fill = not (one_way and tank_is_start)

            def find(rel, typ, val, prio):
                out_ = []
                for (cd, ac, pr, ty) in ctls:
                    if cd[0] == "TankLevelCondition" and cd[1] is tank and cd[2] == "head" and cd[3] is rel and ty is typ and \
                            ac == (1, link, "_internal_status", val, "status") and pr == prio:
                        out_.append(cd[4])
                return out_
            posts = []
            lo = find(Comparison.le, _ControlType.pre_and_postsolve, LinkStatus.Closed, ControlPriority.medium)
            hi = find(Comparison.ge, _ControlType.pre_and_postsolve, LinkStatus.Closed, ControlPriority.medium)
            posts.append(("link_that_can_drain_the_tank_is_closed_at_min_head_before_and_after_each_solve",
                          (len(lo) == 1 and library.as_real(lo[0]) == MINH) if can_drain else len(lo) == 0))
            posts.append(("link_that_can_fill_the_tank_is_closed_at_max_head_before_and_after_each_solve",
                          (len(hi) == 1 and library.as_real(hi[0]) == MAXH) if can_fill else len(hi) == 0))
            # re-open controls exist only for two-way links and never re-open below min / above max while water would leave / enter
            reopen = [(cd, ac, pr, ty) for (cd, ac, pr, ty) in ctls if ac[3] is LinkStatus.Open]
            if one_way:
                posts.append(("one_way_links_are_reopened_only_by_their_own_cv_or_pump_controls", len(reopen) == 0))
            else:
                ok = len(reopen) == 4
                want = {(Comparison.ge, "lo"): MINH + htol, (Comparison.le, "hi"): MAXH - htol}
                simple = [(cd, pr, ty) for (cd, ac, pr, ty) in reopen if cd[0] == "TankLevelCondition"]
                both = [(cd, pr, ty) for (cd, ac, pr, ty) in reopen if cd[0] == "and"]
                ok = ok and len(simple) == 2 and len(both) == 2
                terms = []
                for cd, pr, ty in simple:
                    ok = ok and pr == ControlPriority.low and ty is _ControlType.postsolve and cd[1] is tank and cd[2] == "head"
                    if cd[3] is Comparison.ge:
                        terms.append(library.as_real(cd[4]) == MINH + htol)
                    elif cd[3] is Comparison.le:
                        terms.append(library.as_real(cd[4]) == MAXH - htol)
                    else:
                        ok = False
                for cd, pr, ty in both:
                    rel, lim = cd[1], cd[2]
                    ok = ok and pr == ControlPriority.high and ty is _ControlType.postsolve and rel[0] == "rel" and \
                        rel[1] is tank and rel[2] == "head" and rel[4] is other and rel[5] == "head" and lim[1] is tank and rel[3] is lim[3]
                    if rel[3] is Comparison.le:      # at the bottom: re-open only while the tank is not higher than the other end (inflow)
                        terms.append(library.as_real(lim[4]) == MINH + htol)
                    elif rel[3] is Comparison.ge:    # at the top: re-open only while the tank is not lower than the other end (outflow)
                        terms.append(library.as_real(lim[4]) == MAXH - htol)
                    else:
                        ok = False
                posts.append(("two_way_link_reopen_controls_have_the_documented_shape", ok))
                posts.append(("reopen_thresholds_are_limit_plus_minus_head_tolerance", z3.And(*terms) if terms else False))
            posts.append(("no_other_controls_generated", len(ctls) == len(lo) + len(hi) + len(reopen)))
            return posts
        cx.ensure(post)
    return Case("%s,tank_is_%s" % (kind, "start" if tank_is_start else "end"), build, crosscheck=False)


class _WNT(NativeModel):
    """wn view for _get_all_tank_controls: nodes(Tank) and get_links_for_node(name, 'ALL')."""

    def __init__(self, wn):
        self.wn = wn

    def nodes(self, typ=None):
        return [(n, o) for n, o in self.wn._N if typ is None or issubclass(o.cls, typ)]

    def get_links_for_node(self, name, flag="ALL"):
        assert flag == "ALL"
        return list(self.wn.inlet_all)

    def get_link(self, name):
        return self.wn.get_link(name)


CONTRACTS = [
    Contract("wntr.sim.hydraulics:update_tank_heads", P + ["C10"], [_update_heads_case()],
             note="cylindrical tanks (vol_curve is None); the volume-curve branch has its own contract below",
             trusted=["RegInv (C14): wn.tanks() enumerates exactly the tanks", "CurveRegistry lookup of None is None"]),
    Contract("wntr.sim.hydraulics:update_tank_heads (volume curve)", P, [_update_heads_curve_case()], models=_vol_models,
             note="a volume curve of three points with symbolic, strictly increasing coordinates; np.interp modelled as documented; _interp_extend interpreted",
             trusted=["np.interp (numpy documentation)", "RegInv (C14)"]),
    Contract("wntr.network.elements:Tank.get_volume (volume curve)", P + ["C20"], [_get_volume_curve_case()], models=_vol_models,
             note="three-point curve, symbolic coordinates", trusted=["np.interp (numpy documentation)"]),
    Contract("wntr.network.controls:TankLevelCondition.evaluate (volume curve)", P + ["C05"],
             [_tank_level_curve_case(r, a) for r in (Comparison.ge, Comparison.gt, Comparison.le, Comparison.lt) for a in ("level", "head")], models=_vol_models,
             note="three-point curve, symbolic coordinates; the 'pressure' attribute raises NotImplementedError for volume-curve tanks by design",
             trusted=["np.interp (numpy documentation)", "np.round(x, 10) is the identity (float == R)"]),
    Contract("wntr.sim.hydraulics:update_network_previous_values", P + ["C10", "C16"], [_prev_values_case()]),
    Contract("wntr.network.elements:Tank.get_volume", P + ["C20"], [_get_volume_case(True), _get_volume_case(False)]),
    Contract("wntr.network.elements:Tank.init_level/level", P + ["C11"], [_init_level_case()], interpret_always=(_set_init_level,)),
    Contract("wntr.sim.core:WNTRSimulator._get_all_tank_controls", P + ["C05", "C10", "C03"],
             [_tank_controls_case(k, s) for k in ("pipe", "cv", "pump") for s in (True, False)],
             note="one tank with one adjacent link of each kind/orientation; the loops over tanks and over adjacent links are independent iterations",
             interpret_always=(C.ValueCondition, C.RelativeCondition, C.AndCondition, C.Control, C._InternalControlAction)),
]


def _c06_lemmas():
    """From TankLevelCondition's backtrack bound: after the partial step the level is past the limit by less than one
    second of the tank's flow; together with first_step (no backtrack at t=0, one hydraulic step) the statement's
    'about two seconds' bound holds for every later step."""
    lim, landed, q, A = z3.Reals("limit landed q A")
    absq = z3.If(q >= 0, q, -q)
    return [("overshoot_below_one_second_of_flow", [A > 0, landed >= lim, (landed - lim) * A < absq], (landed - lim) < 2 * absq / A),
            ("undershoot_below_one_second_of_flow", [A > 0, landed <= lim, (lim - landed) * A < absq], (lim - landed) < 2 * absq / A)]


LEMMAS = [Lemma("C06.level_limits", P, _c06_lemmas,
                uses=["TankLevelCondition.evaluate#partial_step_lands_within_one_second_of_flow_past_threshold",
                      "WNTRSimulator._get_all_tank_controls#link_that_can_drain_the_tank_is_closed_at_min_head_before_and_after_each_solve"])]


# ---------------------------------------------------------------------------- bounded: tanks with a volume curve (np.interp branch)

def _vol_curve_tanks(tier, seed):
    """The np.interp branches of update_tank_heads / TankLevelCondition.evaluate / get_volume, by simulation: a tank with a
    VOLUME curve is filled or drained at a constant rate; a simple level control closes the connecting pipe at a threshold
    crossed in the middle of a hydraulic step."""
    import warnings
    import logging
    import numpy as np
    import wntr
    from wntr.network.controls import Control, ControlAction
    warnings.simplefilter("ignore")
    logging.disable(logging.CRITICAL)
    evals, distinct, failures, samples = 0, set(), [], []
    curves = {"quadratic": lambda l: 4.0 * l ** 2, "linear": lambda l: 60.0 * l, "cubic_plus": lambda l: 10.0 * l + 0.5 * l ** 3}
    for cname, vf in curves.items():
        levels = np.arange(0.0, 20.5, 0.5)
        vols = np.array([vf(l) for l in levels])
        for direction in ("fill", "drain"):
            for t_cross in ((5000.5, 4321.0) if tier == "quick" else (5000.5, 4321.0, 3601.5, 7000.25, 6999.9)):
                Q = 0.05
                L0 = 2.0 if direction == "fill" else 12.0
                v0 = float(np.interp(L0, levels, vols))
                v2l = lambda v: float(np.interp(v, vols, levels))
                sgn = 1.0 if direction == "fill" else -1.0
                thr = v2l(v0 + sgn * Q * t_cross)
                one_sec = abs(v2l(v0 + sgn * Q * (t_cross + 1.0)) - thr)
                wn = wntr.network.WaterNetworkModel()
                wn.add_tank("T", elevation=5.0, init_level=L0, min_level=0.0, max_level=20.0, diameter=10.0)
                wn.add_curve("vc", "VOLUME", list(zip(levels.tolist(), vols.tolist())))
                tank = wn.get_node("T")
                tank.vol_curve_name = "vc"
                wn.add_junction("J", base_demand=-sgn * Q, elevation=0.0)
                wn.add_junction("K", base_demand=0.0, elevation=0.0)
                wn.add_pipe("P1", "J", "T", length=100, diameter=0.5, roughness=100)
                wn.add_pipe("P2", "T", "K", length=100, diameter=0.5, roughness=100)
                wn.add_pipe("P3", "K", "J", length=100, diameter=0.5, roughness=100)
                wn.options.time.duration = 3 * 3600
                wn.options.time.hydraulic_timestep = 3600
                wn.options.time.report_timestep = "ALL"
                act = ControlAction(wn.get_link("P2"), "status", wntr.network.LinkStatus.Closed)
                wn.add_control("c", Control._conditional_control(tank, "level", ">" if direction == "fill" else "<", thr, act))
                try:
                    res = wntr.sim.WNTRSimulator(wn).run_sim()
                except Exception as e:
                    failures.append(dict(curve=cname, direction=direction, t_cross=t_cross, raised=repr(e)[:160]))
                    continue
                evals += 1
                distinct.add((cname, direction, t_cross))
                level = res.node["head"]["T"] - tank.elevation
                status = res.link["status"]["P2"]
                dem = res.node["demand"]["T"]
                holds = [t for t in level.index if (level[t] >= thr if direction == "fill" else level[t] <= thr)]
                ok_ctrl = all(status[t] == 0 for t in holds)
                first = holds[0] if holds else None
                over = abs(level[first] - thr) if first is not None else None
                ok_partial = first is not None and 3600 < first < 7200 and over <= 3.0 * one_sec + 1e-6
                # volume integration through the curve between consecutive solved steps
                ts = list(level.index)
                worst = 0.0
                for a, b in zip(ts[:-1], ts[1:]):
                    dv = float(np.interp(level[b], levels, vols) - np.interp(level[a], levels, vols))
                    worst = max(worst, abs(dv - dem[a] * (b - a)))
                ok_vol = worst <= 1e-6 * max(1.0, abs(Q) * 3600)
                if not (ok_ctrl and ok_partial and ok_vol):
                    failures.append(dict(curve=cname, direction=direction, t_cross=t_cross, link_closed_whenever_condition_holds=ok_ctrl,
                                         first_time_condition_holds=first, overshoot_m=over, one_second_of_flow_m=one_sec,
                                         worst_volume_integration_error_m3=worst))
                if len(samples) < 2:
                    samples.append(dict(curve=cname, direction=direction, t_cross=t_cross, first_time_condition_holds=first, overshoot_m=over, one_second_of_flow_m=one_sec))
    # min / max level of a volume-curve tank whose projected volume leaves the curve's range within one hydraulic step
    # (large flow against a small tank): the level limits hold to two seconds of flow and the volume identity is exact
    for cname, curve in (("ends_above_max", ((0, 0), (2, 60), (4, 200), (6, 420))), ("steep", ((0, 0), (1, 5), (3, 100), (7, 130)))):
        for direction, rhead in (("fill", 40.0), ("drain", 0.0)):
            for diam in ((0.5, 0.3) if tier == "quick" else (0.5, 0.3, 0.2, 0.8)):
                lv, vv = [c[0] for c in curve], [c[1] for c in curve]
                max_level, min_level = lv[-1] - 0.5, 1.0
                wn = wntr.network.WaterNetworkModel()
                wn.add_tank("T", elevation=5.0, init_level=3.0, min_level=min_level, max_level=max_level, diameter=10.0)
                wn.add_curve("vc", "VOLUME", list(curve))
                tank = wn.get_node("T")
                tank.vol_curve_name = "vc"
                wn.add_reservoir("R", base_head=rhead)
                wn.add_junction("J", base_demand=0.0, elevation=0.0)
                wn.add_pipe("P1", "R", "J", length=100, diameter=diam, roughness=100)
                wn.add_pipe("P2", "J", "T", length=100, diameter=diam, roughness=100)
                wn.options.time.duration = 6 * 3600
                wn.options.time.hydraulic_timestep = 3600
                wn.options.time.report_timestep = "ALL"
                try:
                    res = wntr.sim.WNTRSimulator(wn).run_sim()
                except Exception as e:
                    failures.append(dict(curve=cname, direction=direction, pipe_diameter=diam, raised=repr(e)[:160]))
                    continue
                evals += 1
                distinct.add((cname, direction, diam, "limits"))
                level = res.node["head"]["T"] - tank.elevation
                dem = res.node["demand"]["T"]
                ts = list(level.index)
                worst_v, worst_l = 0.0, 0.0
                for a, b in zip(ts[:-1], ts[1:]):
                    dv = float(np.interp(level[b], lv, vv) - np.interp(level[a], lv, vv))
                    worst_v = max(worst_v, abs(dv - dem[a] * (b - a)))
                    # two seconds of the (largest) tank flow, converted to level through the local slope of the curve
                    slope = (np.interp(level[b] + 1e-3, lv, vv) - np.interp(level[b] - 1e-3, lv, vv)) / 2e-3
                    two_s = 2.0 * float(dem.abs().max()) / max(slope, 1e-9)      # the level stays where the crossing step left it
                    worst_l = max(worst_l, level[b] - max_level - two_s, min_level - level[b] - two_s)
                ok = worst_v <= 1e-6 * max(1.0, float(dem.abs().max()) * 3600) and worst_l <= 1e-9
                if not ok:
                    failures.append(dict(curve=cname, direction=direction, pipe_diameter=diam, levels=[round(float(x), 4) for x in level.values[:6]],
                                         times=ts[:6], max_level=max_level, min_level=min_level, beyond_limit_by_more_than_2s_of_flow_m=worst_l,
                                         worst_volume_integration_error_m3=worst_v))
                if len(samples) < 3:
                    samples.append(dict(curve=cname, direction=direction, pipe_diameter=diam, levels=[round(float(x), 4) for x in level.values[:4]], times=ts[:4]))
    return dict(evaluations=evals, distinct_nontrivial=len(distinct), failures=failures[:10], samples=samples, exhaustive=False,
                scope="2 volume curves x {fill from / drain to a reservoir} x pipe sizes with the projected volume leaving the curve's range inside one step: "
                      "levels within [min, max] to two seconds of flow, volume change = net inflow x elapsed time; and "
                      "3 volume curves x {fill, drain} x threshold-crossing times inside a hydraulic step: link closed whenever the level condition holds on a reported "
                      "state, threshold met by a partial step (overshoot <= 3 s of flow), volume change through the curve = net inflow x elapsed time; "
                      "(these with projected volumes inside the curve's range)")


def _tank_sim(i, n):
    def run(tier, seed):
        import sys, os
        sys.path.insert(0, os.path.dirname(os.path.dirname(os.path.abspath(__file__))))
        from bounded import c06_tanks_sim
        return c06_tanks_sim.run(tier, seed, i, n)
    return run


BOUNDED = [Bounded("C06.volume_curve_tanks", P + ["C05"], _vol_curve_tanks, kind="simulation of volume-curve tanks, run-time contract")] + \
          [Bounded("C06.cylindrical_tanks[%d/4]" % i, P, _tank_sim(i, 4), kind="real simulator on listed / generated networks (not exhaustive)") for i in range(4)]
