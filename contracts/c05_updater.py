"""Model updating after a control changed an attribute: ModelUpdater.add / update, Definition.update and
hydraulics.update_model_for_controls.

This closes the chain the builder contracts start: every builder registers itself with the updater for the attributes
its rows depend on (obligation `updater_tracks_inputs` of the builder contracts); here: when the change tracker reports
(element, attribute) as changed since the last model update, every function registered for exactly that pair is called
once, with that element, in registration order - and nothing else -, Definition.update rebuilds the definition for exactly
that element, and the 'model' reference point is reset afterwards.  Elements, attribute names and functions are opaque
objects; the numbers of registrations in the cases are fixed (stated in the note).
"""
import z3

from pyvc.core import Contract, Case
from pyvc.values import NativeModel

import wntr.sim.hydraulics as hyd
from wntr.sim.models.utils import ModelUpdater, Definition

P = ["C05", "C02", "C08", "C09", "C07", "C10"]


class Elem:
    """an opaque element: compared and hashed by identity"""

    def __init__(self, name, isolated=False):
        self.name = name
        self._is_isolated = isolated          # (every real node / link carries the flag)


class Fn(NativeModel):
    def __init__(self, tag, log):
        self.tag, self.log = tag, log

    def __call__(self, *a):
        self.log.append((self.tag,) + tuple(a))


def _drive_updater(upd, regs, m, wn, obj, attr):
    # harness text: the registrations the builders make, then one update
    for (o, a, f) in regs:
        upd.add(o, a, f)
    upd.update(m, wn, obj, attr)


def _updater_case(which, isolated=False):
    """`isolated`: the elements are currently cut off from every source - a change made meanwhile must reach the model all the same (the rows are
    what the element is rebuilt from when it is connected again only if they were kept current)"""
    def build(cx):
        log = []
        A, B = Elem("A", isolated), Elem("B", isolated)
        f1, f2, f3, f4 = Fn("f1", log), Fn("f2", log), Fn("f3", log), Fn("f4", log)
        regs = [(A, "status", f1), (B, "status", f3), (A, "status", f2), (A, "setting", f4), (A, "status", f1)]      # f1 registered twice for the same pair
        upd = cx.obj(ModelUpdater, update_functions={})
        target = {"registered_pair": (A, "status"), "other_attribute": (A, "setting"), "other_element": (B, "status"), "unregistered": (B, "setting")}[which]
        cx.target(_drive_updater, upd, regs, "m", "wn", target[0], target[1])

        def post(out):
            if not out.returned:
                return []
            want = {"registered_pair": ["f1", "f2"], "other_attribute": ["f4"], "other_element": ["f3"], "unregistered": []}[which]
            args_ok = all(e[1:] == ("m", "wn", upd, target[0], target[1]) for e in log)
            return [("exactly_the_functions_registered_for_that_element_and_attribute_run_once_each_in_registration_order", [e[0] for e in log] == want),
                    ("each_is_told_the_model_the_network_the_updater_the_element_and_the_attribute", args_ok)]
        cx.ensure(post)
    return Case(which + (",elements_currently_isolated" if isolated else ""), build, crosscheck=False)


class _Def(Definition):
    calls = []

    @classmethod
    def build(cls, m, wn, updater, index_over=None):
        cls.calls.append((m, wn, updater, index_over))


def _definition_case():
    def build(cx):
        del _Def.calls[:]
        el = Elem("pipe-7")
        cx.target(Definition.update.__func__, _Def, "m", "wn", "upd", el, "status")

        def post(out):
            if not out.returned:
                return []
            return [("rebuilds_the_definition_for_exactly_the_changed_element", _Def.calls == [("m", "wn", "upd", ["pipe-7"])])]
        cx.ensure(post)
    return Case("update_is_build_for_that_element", build, crosscheck=False)


class Tracker(NativeModel):
    def __init__(self, changes, log):
        self.changes, self.log = changes, log

    def get_changes(self, ref_point=None):
        self.log.append(("get_changes", ref_point))
        return list(self.changes)

    def reset_reference_point(self, key=None):
        self.log.append(("reset", key))


class Upd(NativeModel):
    def __init__(self, log):
        self.log = log

    def update(self, m, wn, obj, attr):
        self.log.append(("update", m, wn, obj, attr))


def _controls_case(n):
    def build(cx):
        log = []
        els = [Elem("e%d" % i) for i in range(n)]
        changes = [(els[i], "status" if i % 2 == 0 else "setting") for i in range(n)]
        cx.target(hyd.update_model_for_controls, "m", "wn", Upd(log), Tracker(changes, log))

        def post(out):
            if not out.returned:
                return []
            ups = [e for e in log if e[0] == "update"]
            return [("changes_since_the_last_model_update_are_asked_for", log[:1] == [("get_changes", "model")]),
                    ("one_update_per_changed_element_attribute_pair", [(e[3], e[4]) for e in ups] == changes and all(e[1:3] == ("m", "wn") for e in ups)),
                    ("model_reference_point_reset_after_the_updates", log[-1:] == [("reset", "model")] and len(log) == n + 2)]
        cx.ensure(post)
    return Case("%d_changes" % n, build, crosscheck=False)


class _Obs:
    def __init__(self, tag, log):
        self.tag, self.log = tag, log

    def update(self, subject):
        self.log.append((self.tag, subject))


def _drive_subject(subj, a, b, c):
    # harness text: what the change tracker and the valve-source checker do with an action, then one notification
    subj.subscribe(a)
    subj.subscribe(b)
    subj.subscribe(a)
    subj.subscribe(c)
    subj.unsubscribe(b)
    subj.notify()


def _subject_case():
    def build(cx):
        from wntr.network.controls import Subject
        from wntr.utils.ordered_set import OrderedSet
        log = []
        a, b, c = _Obs("a", log), _Obs("b", log), _Obs("c", log)
        subj = cx.obj(Subject, _observers=OrderedSet())
        cx.target(_drive_subject, subj, a, b, c)

        def post(out):
            if not out.returned:
                return []
            return [("every_subscribed_observer_is_told_once_of_this_subject_the_unsubscribed_one_is_not",
                     sorted(e[0] for e in log) == ["a", "c"] and all(e[1] is subj for e in log))]
        cx.ensure(post)
    return Case("three_observers_one_subscribed_twice_one_unsubscribed", build, crosscheck=False)


CONTRACTS = [
    Contract("wntr.sim.models.utils:ModelUpdater.add/update", P, [_updater_case(w, iso) for iso in (False, True) for w in ("registered_pair", "other_attribute", "other_element", "unregistered")],
             interpret_always=(_drive_updater,), note="five registrations on two elements and two attributes (one duplicate); elements and functions are opaque objects"),
    Contract("wntr.sim.models.utils:Definition.update", P, [_definition_case()]),
    Contract("wntr.network.controls:Subject.subscribe/unsubscribe/notify", P + ["C11"], [_subject_case()], interpret_always=(_drive_subject,),
             note="the notification channel between an executed action and the change tracker / valve-source checker"),
    Contract("wntr.sim.hydraulics:update_model_for_controls", P, [_controls_case(0), _controls_case(1), _controls_case(3)],
             note="0, 1 and 3 reported changes",
             trusted=["ControlChangeTracker.get_changes(ref) lists the (element, attribute) pairs whose value differs from the reference point (own contract, c05_conditions.py)"]),
]
