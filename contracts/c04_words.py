"""C04 / C05 / C12 — discrete tables the time-based and conditional controls rest on, each enumerated in full:

* `Comparison.parse`: every documented spelling of a relation (symbols, words as used by EPANET rules and the API, numpy functions,
  Comparison members) names the relation it says ("before" is strictly before, "after" strictly after);
* `_EpanetRule.set_priority`: the priority of a rule read from a file is the number written (EPANET priorities are arbitrary
  numbers, not the seven ControlPriority levels): two rules that differ in priority stay ordered;
* `Control.__init__`: which phase of a step a simple control is checked in - a control on a tank's level / head / pressure before and
  after the solve, a time control of ANY relation before the solve (so that a partial step to its instant is inserted), every other after.
"""
import numpy as np

from pyvc.core import Contract, Case

import wntr
from wntr.network import controls as C
from wntr.network.controls import Comparison, ControlPriority, _ControlType
from wntr.network import LinkStatus

P = ["C04", "C05"]

_WORDS = {
    "eq": ["=", "==", "eq", "-eq", "is", "IS", "equal", "equal to", " Is ", np.equal, Comparison.eq],
    "ne": ["<>", "!=", "ne", "-ne", "not", "NOT", "not_equal", "not equal to", np.not_equal, Comparison.ne],
    "gt": [">", "gt", "-gt", "above", "ABOVE", "after", "After", "greater", "greater than", np.greater, Comparison.gt],
    "lt": ["<", "lt", "-lt", "below", "BELOW", "before", "Before", "less", "less than", np.less, Comparison.lt],
    "ge": [">=", "ge", "-ge", "greater_equal", "greater than or equal to", np.greater_equal, Comparison.ge],
    "le": ["<=", "le", "-le", "less_equal", "less than or equal to", np.less_equal, Comparison.le],
}


def _parse_all(words):
    # harness text: parse every spelling
    return [Comparison.parse(w) for w in words]


def _parse_case(rel):
    def build(cx):
        words = _WORDS[rel]
        cx.target(_parse_all, words)

        def post(out):
            if not out.returned:
                return []
            want = getattr(Comparison, rel)
            return [("every_spelling_of_%s_is_read_as_%s" % (rel, rel), len(out.value) == len(words) and all(r is want for r in out.value))]
        cx.ensure(post)
    return Case("relation=%s" % rel, build, crosscheck=False)


def _priority_case():
    def build(cx):
        from wntr.epanet.io import _EpanetRule
        from wntr.epanet.util import FlowUnits, MassUnits
        texts = ["0", "1", "3", "6", "7", "9", "12.0", "100", 5, 8.0]

        def run(vals):
            out = []
            for v in vals:
                r = _EpanetRule("r", FlowUnits.LPS, MassUnits.mg)
                r.set_priority(v)
                out.append(r.priority)
            return out
        cx.target(run, texts)

        def post(out):
            if not out.returned:
                return []
            want = [0, 1, 3, 6, 7, 9, 12, 100, 5, 8]
            return [("the_priority_is_the_number_written", list(out.value) == want),
                    ("rules_that_differ_in_priority_stay_ordered", all((a < b) == (x < y) for a, x in zip(out.value, want) for b, y in zip(out.value, want)))]
        cx.ensure(post)
        cx.interp.interpret_always = tuple(cx.interp.interpret_always) + (run,)
    return Case("priorities_0_to_100", build, crosscheck=False)


def _control_type_case():
    def build(cx):
        wn = wntr.network.WaterNetworkModel()
        wn.add_reservoir("R", base_head=30.0)
        wn.add_tank("T", elevation=10.0, init_level=2.0, min_level=0.0, max_level=5.0, diameter=4.0)
        wn.add_junction("J", base_demand=0.001, elevation=0.0)
        wn.add_pipe("P", "R", "J", length=10.0, diameter=0.3, roughness=100.0)
        wn.add_pipe("Q", "J", "T", length=10.0, diameter=0.3, roughness=100.0)
        t, j, p = wn.get_node("T"), wn.get_node("J"), wn.get_link("P")
        act = C.ControlAction(p, "status", LinkStatus.Closed)
        conds = []
        for rel in ("=", ">", ">=", "<", "<=", "after", "before"):
            conds.append(("time:" + rel, C.SimTimeCondition(wn, rel, 5400), _ControlType.presolve))
            conds.append(("clock:" + rel, C.TimeOfDayCondition(wn, rel, 5400), _ControlType.presolve))
        for attr in ("level", "head", "pressure"):
            for rel in (">", "<="):
                conds.append(("tank %s %s" % (attr, rel), C.ValueCondition(t, attr, rel, 3.0 if attr != "head" else 13.0), _ControlType.pre_and_postsolve))
        conds.append(("junction pressure", C.ValueCondition(j, "pressure", "<", 10.0), _ControlType.postsolve))
        conds.append(("junction head", C.ValueCondition(j, "head", ">", 10.0), _ControlType.postsolve))
        conds.append(("pipe flow", C.ValueCondition(p, "flow", ">", 0.01), _ControlType.postsolve))
        conds.append(("relative", C.RelativeCondition(t, "head", ">=", j, "head"), _ControlType.postsolve))
        conds.append(("and of tank and time", C.AndCondition(C.ValueCondition(t, "level", ">", 3.0), C.SimTimeCondition(wn, ">=", 3600)), _ControlType.postsolve))

        def run(cs):
            return [C.Control(c, act)._control_type for c in cs]
        cx.target(run, [c for _, c, _ in conds])
        cx.interp.interpret_always = tuple(cx.interp.interpret_always) + (run, C.Control)

        def post(out):
            if not out.returned:
                return []
            bad = [nm for (nm, _, want), got in zip(conds, out.value) if got != want]
            return [("time_controls_of_any_relation_before_the_solve_tank_controls_before_and_after_the_rest_after", not bad and len(out.value) == len(conds))]
        cx.ensure(post)
    return Case("every_condition_kind_and_relation", build, crosscheck=False)


CONTRACTS = [
    Contract("wntr.network.controls:Comparison.parse", P + ["C12", "C13"], [_parse_case(r) for r in _WORDS], interpret_always=(_parse_all,),
             note="enumerated in full over the documented spellings"),
    Contract("wntr.epanet.io:_EpanetRule.set_priority", P + ["C12", "C13"], [_priority_case()]),
    Contract("wntr.network.controls:Control.__init__ (phase of the step)", P + ["C06"], [_control_type_case()],
             note="a real model; every time relation x {simulation time, clock time}, a tank's level / head / pressure, other value / relative / compound conditions"),
]
