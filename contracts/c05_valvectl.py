"""C05 / C02 — WNTRSimulator._get_valve_controls: the controls the simulator derives for valves.

(1) Every user control / rule with a `setting` action on a valve gets a companion "status ACTIVE" control with the SAME
condition object, the same control class and the SAME priority (so that priority conflicts between a setting control and a
status control on one valve are resolved as the user ordered them: the clause "unless a conflicting triggered control of
equal or higher priority" of C05). (2) PRV / PSV / FCV get their close / open / active internal controls: close with the
highest priority, open and active with the lowest, all evaluated after the solve; TCV / PBV / GPV get none.

The domain is discrete (control class x 6 priorities x position of the setting action x valve types): it is enumerated in
full on a real model; the function's source is executed by the interpreter, constructors natively."""
import z3

from pyvc.core import Contract, Case
from pyvc.values import NativeModel

import wntr
from wntr.sim.core import WNTRSimulator
from wntr.network import LinkStatus
from wntr.network import controls as C
from wntr.network.controls import ControlPriority, _ControlType

P = ["C05", "C02"]


class _Checker:
    def should_valve_be_opened(self, valve):
        return False


def _model():
    wn = wntr.network.WaterNetworkModel()
    wn.add_reservoir("R", base_head=50.0)
    for i, vt in enumerate(("PRV", "PSV", "FCV", "TCV", "PBV")):
        wn.add_junction("A%d" % i, base_demand=0.001, elevation=0.0)
        wn.add_junction("B%d" % i, base_demand=0.001, elevation=0.0)
        wn.add_pipe("P%d" % i, "R", "A%d" % i, length=10.0, diameter=0.3, roughness=100.0)
        wn.add_valve("V_" + vt, "A%d" % i, "B%d" % i, diameter=0.3, valve_type=vt, initial_setting=5.0)
    return wn


def _case(kind, priority, position):
    """kind: Control | Rule ; position of the setting action among the control's actions: only | after_a_status_action | in_the_else_branch"""
    def build(cx):
        wn = _model()
        v, other = wn.get_link("V_TCV"), wn.get_link("P0")
        cond = C.ValueCondition(wn.get_node("A3"), "pressure", "<", 12.5)
        setting = C.ControlAction(v, "setting", 40.0)
        status = C.ControlAction(other, "status", LinkStatus.Closed)
        if kind == "Control":
            ctl = C.Control(cond, setting, priority=priority)
        elif position == "only":
            ctl = C.Rule(cond, [setting], priority=priority, name="r")
        elif position == "after_a_status_action":
            ctl = C.Rule(cond, [status, setting], priority=priority, name="r")
        else:
            ctl = C.Rule(cond, [status], [setting], priority=priority, name="r")
        wn.add_control("user", ctl)
        # a second user control without any setting action: no companion
        wn.add_control("plain", C.Control(C.SimTimeCondition(wn, "==", 3600), C.ControlAction(other, "status", LinkStatus.Open)))
        checker = _Checker()
        sim = cx.obj(WNTRSimulator, _wn=wn, _valve_source_checker=checker)
        cx.target(WNTRSimulator._get_valve_controls, sim)

        def post(out):
            if not out.returned:
                return []
            got = list(out.value)
            comp = [c for c in got if not isinstance(c._then_actions[0], C._InternalControlAction)]
            internal = [c for c in got if isinstance(c._then_actions[0], C._InternalControlAction)]
            posts = [("one_companion_per_setting_action_and_none_for_other_controls", len(comp) == 1)]
            if len(comp) == 1:
                c = comp[0]
                a = c._then_actions[0]
                posts += [("companion_has_the_class_of_the_user_control", type(c) is type(ctl)),
                          ("companion_has_the_condition_of_the_user_control", c._condition is cond),
                          ("companion_sets_the_status_of_that_valve_to_active", len(c._then_actions) == 1 and len(c._else_actions) == 0 and a._target_obj is v
                           and a._attribute == "status" and a._value == LinkStatus.Active),
                          ("companion_has_the_priority_of_the_user_control", c._priority == priority)]
            by_valve = {}
            for c in internal:
                by_valve.setdefault(c._then_actions[0]._target_obj.name, []).append(c)
            posts.append(("internal_controls_exactly_for_prv_psv_fcv", sorted(by_valve) == ["V_FCV", "V_PRV", "V_PSV"]))
            ok_shape = True
            FEAS = (C.AndCondition, 'Open', ControlPriority.very_high)
            for vn, cs in by_valve.items():
                want = {"V_PRV": {(C._ClosePRVCondition, 'Closed', ControlPriority.very_high), (C._OpenPRVCondition, 'Open', ControlPriority.very_low),
                                  (C._ActivePRVCondition, 'Active', ControlPriority.very_low), FEAS},
                        "V_PSV": {(C._ClosePSVCondition, 'Closed', ControlPriority.very_high), (C._OpenPSVCondition, 'Open', ControlPriority.very_low),
                                  (C._ActivePSVCondition, 'Active', ControlPriority.very_low), FEAS},
                        "V_FCV": {(C._OpenFCVCondition, 'Open', ControlPriority.very_low), (C._ActiveFCVCondition, 'Active', ControlPriority.very_low), FEAS}}[vn]
                have = {(type(c._condition), LinkStatus(c._then_actions[0]._value).name, c._priority) for c in cs}
                ok_shape = ok_shape and have == want and len(cs) == len(want)
                for c in cs:
                    a = c._then_actions[0]
                    ok_shape = ok_shape and a._internal_attr == "_internal_status" and a._property_attr == "status" and len(c._then_actions) == 1
                    if type(c._condition) is C.AndCondition:
                        # the valve is active and the checker says it has no source upstream / downstream: opened before anything else (feasibility)
                        c1, c2 = c._condition._condition_1, c._condition._condition_2
                        ok_shape = ok_shape and c._control_type == _ControlType.feasibility and c1._source_obj is wn.get_link(vn) and c1._source_attr == "status" \
                            and c1._relation is C.Comparison.eq and c1._threshold == LinkStatus.Active and isinstance(c2, C.FunctionCondition) \
                            and c2._func.__self__ is checker and c2._func_kwargs == {"valve": wn.get_link(vn)} and wn.get_link(vn) in c2.requires()
                    else:
                        ok_shape = ok_shape and c._control_type == _ControlType.postsolve and c._condition.requires() is not None
            posts.append(("each_regulating_valve_gets_close_first_open_and_active_last_after_the_solve_and_the_no_source_opening_as_feasibility", bool(ok_shape)))
            return posts
        cx.ensure(post)
    return Case("%s,priority=%s,setting_action=%s" % (kind, priority.name, position), build, crosscheck=False)


_cases = [_case("Control", p, "only") for p in ControlPriority] + \
         [_case("Rule", p, pos) for p in ControlPriority for pos in ("only", "after_a_status_action", "in_the_else_branch")]

CONTRACTS = [
    Contract("wntr.sim.core:WNTRSimulator._get_valve_controls", P + ["C03"], _cases,
             note="enumerated in full over control class x priority x position of the setting action, on a real model with one valve of each regulated type; "
                  "constructors of the control classes run natively (their contracts: c05_conditions)",
             trusted=["Control / Rule / ControlAction constructors store their arguments (contracts/c05_conditions.py)"]),
]


# ---------------------------------------------------------------------------- _get_cv_controls / _get_pump_controls / _initialize_name_id_maps

def _model2():
    wn = wntr.network.WaterNetworkModel()
    wn.add_reservoir("R", base_head=50.0)
    for i in range(6):
        wn.add_junction("J%d" % i, base_demand=0.001, elevation=0.0)
    wn.add_pipe("plain", "R", "J0", length=10.0, diameter=0.3, roughness=100.0)
    wn.add_pipe("cv_a", "J0", "J1", length=10.0, diameter=0.3, roughness=100.0, check_valve=True)
    wn.add_pipe("plain2", "J1", "J2", length=10.0, diameter=0.3, roughness=100.0)
    wn.add_pipe("cv_b", "J2", "J3", length=10.0, diameter=0.3, roughness=100.0, check_valve=True)
    wn.add_curve("pc", "HEAD", [(0.0, 30.0), (0.05, 20.0), (0.1, 5.0)])
    wn.add_pump("head_pump", "J3", "J4", pump_type="HEAD", pump_parameter="pc")
    wn.add_pump("power_pump", "J4", "J5", pump_type="POWER", pump_parameter=5000.0)
    return wn


def _internal_shape(c, cond_cls, element, value, priority):
    a = c._then_actions[0]
    return (type(c) is C.Control and type(c._condition) is cond_cls and len(c._then_actions) == 1 and len(c._else_actions) == 0
            and type(a) is C._InternalControlAction and a._target_obj is element and a._internal_attr == "_internal_status" and a._property_attr == "status"
            and LinkStatus(a._value) == value and c._priority == priority and c._control_type == _ControlType.postsolve
            and element in c._condition.requires())


def _cv_case():
    def build(cx):
        wn = _model2()
        sim = cx.obj(WNTRSimulator, _wn=wn)
        cx.target(WNTRSimulator._get_cv_controls, sim)

        def post(out):
            if not out.returned:
                return []
            got = list(out.value)
            by = {}
            for c in got:
                by.setdefault(c._then_actions[0]._target_obj.name, []).append(c)
            ok = sorted(by) == ["cv_a", "cv_b"]
            shapes = True
            for nm, cs in by.items():
                p = wn.get_link(nm)
                shapes = shapes and len(cs) == 2 and \
                    any(_internal_shape(c, C._CloseCVCondition, p, LinkStatus.Closed, ControlPriority.very_high) for c in cs) and \
                    any(_internal_shape(c, C._OpenCVCondition, p, LinkStatus.Open, ControlPriority.very_low) for c in cs)
            return [("exactly_the_check_valve_pipes_get_controls", ok),
                    ("each_gets_close_first_and_open_last_on_its_own_pipe_after_the_solve", bool(shapes))]
        cx.ensure(post)
    return Case("two_check_valve_pipes_among_plain_pipes", build, crosscheck=False)


def _pump_case(kind, priority):
    """kind: none | Control | Rule - a user control that changes a pump's base_speed gets a status-OPEN companion of its class, condition and priority"""
    def build(cx):
        wn = _model2()
        hp, pp = wn.get_link("head_pump"), wn.get_link("power_pump")
        cond = C.SimTimeCondition(wn, ">=", 7200)
        ctl = None
        if kind != "none":
            act = C.ControlAction(pp, "base_speed", 0.8)
            ctl = C.Control(cond, act, priority=priority) if kind == "Control" else C.Rule(cond, [C.ControlAction(wn.get_link("plain"), "status", LinkStatus.Open), act], priority=priority, name="r")
            wn.add_control("speed", ctl)
        sim = cx.obj(WNTRSimulator, _wn=wn)
        cx.target(WNTRSimulator._get_pump_controls, sim)

        def post(out):
            if not out.returned:
                return []
            got = list(out.value)
            comp = [c for c in got if type(c._then_actions[0]) is not C._InternalControlAction]
            internal = [c for c in got if type(c._then_actions[0]) is C._InternalControlAction]
            posts = [("one_companion_per_speed_action", len(comp) == (0 if kind == "none" else 1))]
            if comp:
                c = comp[0]
                a = c._then_actions[0]
                posts.append(("companion_opens_that_pump_with_the_class_condition_and_priority_of_the_user_control",
                              type(c) is type(ctl) and c._condition is cond and len(c._then_actions) == 1 and len(c._else_actions) == 0 and a._target_obj is pp
                              and a._attribute == "status" and LinkStatus(a._value) == LinkStatus.Open and c._priority == priority))
            hps = [c for c in internal if c._then_actions[0]._target_obj is hp]
            pps = [c for c in internal if c._then_actions[0]._target_obj is pp]
            posts.append(("head_pump_gets_its_close_first_and_open_last_conditions", len(hps) == 2 and
                          any(_internal_shape(c, C._CloseHeadPumpCondition, hp, LinkStatus.Closed, ControlPriority.very_high) for c in hps) and
                          any(_internal_shape(c, C._OpenHeadPumpCondition, hp, LinkStatus.Open, ControlPriority.very_low) for c in hps)))
            posts.append(("power_pump_gets_its_close_first_and_open_last_conditions", len(pps) == 2 and len(internal) == 4 and
                          any(_internal_shape(c, C._ClosePowerPumpCondition, pp, LinkStatus.Closed, ControlPriority.very_high) for c in pps) and
                          any(_internal_shape(c, C._OpenPowerPumpCondition, pp, LinkStatus.Open, ControlPriority.very_low) for c in pps)))
            return posts
        cx.ensure(post)
    return Case("speed_control=%s%s" % (kind, "" if kind == "none" else ",priority=" + priority.name), build, crosscheck=False)


class _Lists(NativeModel):
    """the model as _initialize_name_id_maps sees it: links() and nodes() as (name, element) lists"""

    def __init__(self, wn):
        self.wn = wn

    def links(self):
        return list(self.wn.links())

    def nodes(self):
        return list(self.wn.nodes())


def _id_maps_case():
    def build(cx):
        wn = _model2()
        sim = cx.obj(WNTRSimulator, _wn=_Lists(wn), _link_name_to_id={}, _link_id_to_name={}, _node_name_to_id={}, _node_id_to_name={})
        cx.target(WNTRSimulator._initialize_name_id_maps, sim)

        def post(out):
            if not out.returned:
                return []
            f = sim.fields
            ln, nn = wn.link_name_list, wn.node_name_list
            return [("links_are_numbered_0_to_n_minus_1_both_ways", sorted(f["_link_name_to_id"]) == sorted(ln) and sorted(f["_link_name_to_id"].values()) == list(range(len(ln)))
                     and all(f["_link_id_to_name"][i] == n for n, i in f["_link_name_to_id"].items()) and len(f["_link_id_to_name"]) == len(ln)),
                    ("nodes_are_numbered_0_to_n_minus_1_both_ways", sorted(f["_node_name_to_id"]) == sorted(nn) and sorted(f["_node_name_to_id"].values()) == list(range(len(nn)))
                     and all(f["_node_id_to_name"][i] == n for n, i in f["_node_name_to_id"].items()) and len(f["_node_id_to_name"]) == len(nn))]
        cx.ensure(post)
    return Case("seven_nodes_six_links", build, crosscheck=False)


CONTRACTS += [
    Contract("wntr.sim.core:WNTRSimulator._get_cv_controls", P, [_cv_case()], note="a real model with two check-valve pipes among plain pipes and pumps"),
    Contract("wntr.sim.core:WNTRSimulator._get_pump_controls", P, [_pump_case("none", ControlPriority.medium)] + [_pump_case(k, p) for k in ("Control", "Rule") for p in ControlPriority],
             note="enumerated over control class x priority; one head pump and one constant-power pump"),
    Contract("wntr.sim.core:WNTRSimulator._initialize_name_id_maps", ["C09", "C01"], [_id_maps_case()]),
]
