"""C05 / C02 — WNTRSimulator._get_valve_controls: the controls the simulator derives for valves.

(1) Every user control / rule with a `setting` action on a valve gets a companion "status ACTIVE" control with the SAME
condition object, the same control class and the SAME priority (so that priority conflicts between a setting control and a
status control on one valve are resolved as the user ordered them: the clause "unless a conflicting triggered control of
equal or higher priority" of C05). (2) PRV / PSV / FCV get their close / open / active internal controls: close with the
highest priority, open and active with the lowest, all evaluated after the solve; TCV / PBV / GPV get none.

The domain is discrete (control class x 6 priorities x position of the setting action x valve types): it is enumerated in
full on a real model; the function's source is executed by the interpreter, constructors natively."""
import z3

from pyvc.core import Contract, Case
from pyvc.values import NativeModel

import wntr
from wntr.sim.core import WNTRSimulator
from wntr.network import LinkStatus
from wntr.network import controls as C
from wntr.network.controls import ControlPriority, _ControlType

P = ["C05", "C02"]


class _Checker:
    def should_valve_be_opened(self, valve):
        return False


def _model():
    wn = wntr.network.WaterNetworkModel()
    wn.add_reservoir("R", base_head=50.0)
    for i, vt in enumerate(("PRV", "PSV", "FCV", "TCV", "PBV")):
        wn.add_junction("A%d" % i, base_demand=0.001, elevation=0.0)
        wn.add_junction("B%d" % i, base_demand=0.001, elevation=0.0)
        wn.add_pipe("P%d" % i, "R", "A%d" % i, length=10.0, diameter=0.3, roughness=100.0)
        wn.add_valve("V_" + vt, "A%d" % i, "B%d" % i, diameter=0.3, valve_type=vt, initial_setting=5.0)
    return wn


def _case(kind, priority, position):
    """kind: Control | Rule ; position of the setting action among the control's actions: only | after_a_status_action | in_the_else_branch"""
    def build(cx):
        wn = _model()
        v, other = wn.get_link("V_TCV"), wn.get_link("P0")
        cond = C.ValueCondition(wn.get_node("A3"), "pressure", "<", 12.5)
        setting = C.ControlAction(v, "setting", 40.0)
        status = C.ControlAction(other, "status", LinkStatus.Closed)
        if kind == "Control":
            ctl = C.Control(cond, setting, priority=priority)
        elif position == "only":
            ctl = C.Rule(cond, [setting], priority=priority, name="r")
        elif position == "after_a_status_action":
            ctl = C.Rule(cond, [status, setting], priority=priority, name="r")
        else:
            ctl = C.Rule(cond, [status], [setting], priority=priority, name="r")
        wn.add_control("user", ctl)
        # a second user control without any setting action: no companion
        wn.add_control("plain", C.Control(C.SimTimeCondition(wn, "==", 3600), C.ControlAction(other, "status", LinkStatus.Open)))
        checker = _Checker()
        sim = cx.obj(WNTRSimulator, _wn=wn, _valve_source_checker=checker)
        cx.target(WNTRSimulator._get_valve_controls, sim)

        def post(out):
            if not out.returned:
                return []
            got = list(out.value)
            comp = [c for c in got if not isinstance(c._then_actions[0], C._InternalControlAction)]
            internal = [c for c in got if isinstance(c._then_actions[0], C._InternalControlAction)]
            posts = [("one_companion_per_setting_action_and_none_for_other_controls", len(comp) == 1)]
            if len(comp) == 1:
                c = comp[0]
                a = c._then_actions[0]
                posts += [("companion_has_the_class_of_the_user_control", type(c) is type(ctl)),
                          ("companion_has_the_condition_of_the_user_control", c._condition is cond),
                          ("companion_sets_the_status_of_that_valve_to_active", len(c._then_actions) == 1 and len(c._else_actions) == 0 and a._target_obj is v
                           and a._attribute == "status" and a._value == LinkStatus.Active),
                          ("companion_has_the_priority_of_the_user_control", c._priority == priority)]
            by_valve = {}
            for c in internal:
                by_valve.setdefault(c._then_actions[0]._target_obj.name, []).append(c)
            posts.append(("internal_controls_exactly_for_prv_psv_fcv", sorted(by_valve) == ["V_FCV", "V_PRV", "V_PSV"]))
            ok_shape = True
            FEAS = (C.AndCondition, 'Open', ControlPriority.very_high)
            for vn, cs in by_valve.items():
                want = {"V_PRV": {(C._ClosePRVCondition, 'Closed', ControlPriority.very_high), (C._OpenPRVCondition, 'Open', ControlPriority.very_low),
                                  (C._ActivePRVCondition, 'Active', ControlPriority.very_low), FEAS},
                        "V_PSV": {(C._ClosePSVCondition, 'Closed', ControlPriority.very_high), (C._OpenPSVCondition, 'Open', ControlPriority.very_low),
                                  (C._ActivePSVCondition, 'Active', ControlPriority.very_low), FEAS},
                        "V_FCV": {(C._OpenFCVCondition, 'Open', ControlPriority.very_low), (C._ActiveFCVCondition, 'Active', ControlPriority.very_low), FEAS}}[vn]
                have = {(type(c._condition), LinkStatus(c._then_actions[0]._value).name, c._priority) for c in cs}
                ok_shape = ok_shape and have == want and len(cs) == len(want)
                for c in cs:
                    a = c._then_actions[0]
                    ok_shape = ok_shape and a._internal_attr == "_internal_status" and a._property_attr == "status" and len(c._then_actions) == 1
                    if type(c._condition) is C.AndCondition:
                        # the valve is active and the checker says it has no source upstream / downstream: opened before anything else (feasibility)
                        c1, c2 = c._condition._condition_1, c._condition._condition_2
                        ok_shape = ok_shape and c._control_type == _ControlType.feasibility and c1._source_obj is wn.get_link(vn) and c1._source_attr == "status" \
                            and c1._relation is C.Comparison.eq and c1._threshold == LinkStatus.Active and isinstance(c2, C.FunctionCondition) \
                            and c2._func.__self__ is checker and c2._func_kwargs == {"valve": wn.get_link(vn)} and wn.get_link(vn) in c2.requires()
                    else:
                        ok_shape = ok_shape and c._control_type == _ControlType.postsolve and c._condition.requires() is not None
            posts.append(("each_regulating_valve_gets_close_first_open_and_active_last_after_the_solve_and_the_no_source_opening_as_feasibility", bool(ok_shape)))
            return posts
        cx.ensure(post)
    return Case("%s,priority=%s,setting_action=%s" % (kind, priority.name, position), build, crosscheck=False)


_cases = [_case("Control", p, "only") for p in ControlPriority] + \
         [_case("Rule", p, pos) for p in ControlPriority for pos in ("only", "after_a_status_action", "in_the_else_branch")]

CONTRACTS = [
    Contract("wntr.sim.core:WNTRSimulator._get_valve_controls", P, _cases,
             note="enumerated in full over control class x priority x position of the setting action, on a real model with one valve of each regulated type; "
                  "constructors of the control classes run natively (their contracts: c05_conditions)",
             trusted=["Control / Rule / ControlAction constructors store their arguments (contracts/c05_conditions.py)"]),
]
