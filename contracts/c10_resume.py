"""C10 — pause / pickle / restart (partial claim).

Decided deductively elsewhere (carried into C10 by property tags): run_sim's entry code establishes the main-loop
invariant for a resumed model (contracts/c16_runsim.py, cases start=resume: prev < sim_time, rule grid after the last
solved time, first saved time > every earlier one, never an earlier time), _compute_next_timestep never returns a
time <= prev (contracts/c04_timestep.py), update_tank_heads integrates from the previous *solved* head
(contracts/c06_tanks.py), update_network_previous_values snapshots exactly what the next step reads.

Bounded stand-in here: pause at an intermediate duration, pickle + unpickle the model, continue with a new
simulator, and compare the concatenated results with an uninterrupted run, on the listed networks and pause points.
Not decided: numerical equality for every model (needs determinism of numpy/scipy).
"""
import os
import pickle

from pyvc.runner import Bounded

P = ["C10"]
NETS = [("examples/networks/Net1.inp", 6), ("wntr/tests/networks_for_testing/time_controls.inp", 8),
        ("wntr/tests/networks_for_testing/tank_controls_1.inp", 8), ("wntr/tests/networks_for_testing/conditional_controls_1.inp", 8),
        ("wntr/tests/networks_for_testing/control_comb.inp", 8), ("wntr/tests/networks_for_testing/cv_controls.inp", 6),
        ("wntr/tests/networks_for_testing/leaks.inp", 6), ("builtin:isolated_branch_pipe", 6), ("builtin:isolated_branch_pump", 6),
        ("examples/networks/Net3.inp", 6)]


def _builtin(name):
    """a dead-end branch cut off at 2 h and reconnected at 4 h (the pause falls inside, before and after the isolation)"""
    import wntr
    from wntr.network.controls import Control, ControlAction
    wn = wntr.network.WaterNetworkModel()
    wn.add_reservoir("R", base_head=50)
    wn.add_junction("A", base_demand=0.01, elevation=0)
    wn.add_junction("B", base_demand=0.01, elevation=0)
    wn.add_junction("C", base_demand=0.005, elevation=1)
    wn.add_pipe("RA", "R", "A", length=100, diameter=0.3, roughness=100)
    if name == "isolated_branch_pipe":
        wn.add_pipe("AB", "A", "B", length=100, diameter=0.3, roughness=100)
    else:
        wn.add_curve("pc", "HEAD", [(0.0, 30.0), (0.05, 20.0), (0.1, 0.0)])
        wn.add_pump("AB", "A", "B", pump_type="HEAD", pump_parameter="pc")
    wn.add_pipe("BC", "B", "C", length=100, diameter=0.3, roughness=100)
    link = wn.get_link("AB")
    wn.add_control("verif_close", Control._time_control(wn, 2 * 3600, "SIM_TIME", False, ControlAction(link, "status", 0)))
    wn.add_control("verif_open", Control._time_control(wn, 4 * 3600, "SIM_TIME", False, ControlAction(link, "status", 1)))
    return wn


def _repo():
    import wntr
    return os.path.dirname(os.path.dirname(os.path.abspath(wntr.__file__)))


def _add_rule(wn):
    """a time rule with an ELSE branch (exercises the rule grid across the pause)"""
    import wntr
    from wntr.network.controls import SimTimeCondition, Rule, ControlAction
    pipes = wn.pipe_name_list
    p = wn.get_link(pipes[len(pipes) // 2])
    cond = SimTimeCondition(wn, ">=", 2 * 3600 + 1800)
    wn.add_control("verif_rule", Rule(cond, [ControlAction(p, "status", 0)], [ControlAction(p, "status", 1)], name="verif_rule"))



def _absdiff_max(a, b):
    """largest |a - b|; NaN on both sides is agreement, NaN on one side only is an infinite difference (np.nanmax alone would hide it)"""
    import numpy as _np
    a, b = _np.asarray(a, dtype=float), _np.asarray(b, dtype=float)
    if a.size == 0:
        return 0.0
    if (_np.isnan(a) != _np.isnan(b)).any():
        return float("inf")
    d = _np.abs(a - b)
    return 0.0 if _np.isnan(d).all() else float(_np.nanmax(d))


def _run(shard, nshards):
    def run(tier, seed):
        import warnings
        import logging
        import numpy as np
        import pandas as pd
        import wntr
        warnings.simplefilter("ignore")
        logging.disable(logging.CRITICAL)
        root = _repo()
        evals, distinct, failures, samples, skipped = 0, set(), [], [], []
        idx = 0
        nets = NETS if tier == "thorough" else NETS[:-1]
        for ni, (rel, hours) in enumerate(nets):
            for with_rule in (False, True):
              # the report step below, equal to and above the hydraulic step (the effective steps of a continued run are those of the uninterrupted one)
              for (hyd_, rep_) in (((3600, 3600), (3600, 1800), (1800, 3600)) if (ni < 3 and not with_rule) else ((3600, 3600),)):
                for pause_h in ((1, 3) if tier == "quick" else range(1, hours)):
                    idx += 1
                    if idx % nshards != shard:
                        continue
                    def mk():
                        wn = _builtin(rel[8:]) if rel.startswith("builtin:") else wntr.network.WaterNetworkModel(os.path.join(root, rel))
                        wn.options.time.hydraulic_timestep = hyd_
                        wn.options.time.report_timestep = rep_
                        wn.options.time.rule_timestep = 360
                        if with_rule:
                            _add_rule(wn)
                        return wn
                    try:
                        wn = mk()
                        wn.options.time.duration = hours * 3600
                        full = wntr.sim.WNTRSimulator(wn).run_sim()
                        wn = mk()
                        wn.options.time.duration = pause_h * 3600
                        r1 = wntr.sim.WNTRSimulator(wn).run_sim()
                        wn = pickle.loads(pickle.dumps(wn))
                        wn.options.time.duration = hours * 3600
                        r2 = wntr.sim.WNTRSimulator(wn).run_sim()
                    except Exception as e:
                        failures.append(dict(net=rel, rule=with_rule, pause_h=pause_h, raised=repr(e)[:200]))
                        continue
                    if full.error_code is not None:
                        skipped.append((rel, with_rule, pause_h))      # the uninterrupted run reports non-convergence: its results are partial, no reference to compare with
                        continue
                    if r1.error_code is not None or r2.error_code is not None:
                        failures.append(dict(net=rel, rule=with_rule, pause_h=pause_h, raised="a part reports non-convergence (error_code %r / %r) where the uninterrupted run converges" % (r1.error_code, r2.error_code)))
                        continue
                    evals += 1
                    distinct.add((rel, with_rule, pause_h, hyd_, rep_))
                    t1, t2, tf = list(r1.node["head"].index), list(r2.node["head"].index), list(full.node["head"].index)
                    ok_idx = (t1 + t2 == tf) and (not t2 or not t1 or t2[0] > t1[-1])
                    worst = 0.0
                    if ok_idx:
                        for grp, key in (("node", "head"), ("node", "demand"), ("link", "flowrate"), ("link", "status")):
                            cat = pd.concat([getattr(r1, grp)[key], getattr(r2, grp)[key]])
                            ref = getattr(full, grp)[key]
                            d = _absdiff_max(cat.values, ref.values)
                            worst = max(worst, d)
                    if not ok_idx or worst > 1e-6:
                        failures.append(dict(net=rel, rule=with_rule, pause_h=pause_h, times_part1=t1[-2:], times_part2=t2[:3],
                                             index_ok=ok_idx, max_abs_difference=worst))
                    if len(samples) < 3:
                        samples.append(dict(net=rel, rule=with_rule, pause_at_s=pause_h * 3600, continued_times=t2[:2], max_abs_difference=worst))
        return dict(evaluations=evals, distinct_nontrivial=len(distinct), failures=failures[:10], samples=samples, exhaustive=False,
                    scope="shard %d/%d: %d networks x {as is, + time rule with ELSE} x pause points; pickle round trip between the parts; "
                          "heads, demands, flows, statuses of the concatenation vs one run (1e-6 abs); %d cases skipped because the uninterrupted "
                          "run itself reported non-convergence (no reference)" % (shard, nshards, len(nets), len(skipped)))
    return run


NSH = 8
BOUNDED = [Bounded("C10.pause_pickle_restart[%d/%d]" % (i, NSH), P, _run(i, NSH), kind="differential on listed networks (not exhaustive)") for i in range(NSH)]


# ---------------------------------------------------------------------------- _ValveSourceChecker: the cached "has a source" answers stay current
#
# The uninterrupted run keeps one checker for the whole run, a continued run builds a fresh one: the two agree only if the cache of the long-lived one is
# refreshed whenever a link status it watches has changed since the answers were computed.

from pyvc.core import Contract, Case
from pyvc.values import NativeModel
from pyvc import library as _library
import types as _types
import wntr.sim.core as _core
from wntr.network import LinkStatus as _LS


def _checker_case(first, needs, snapshot_state, current_state):
    """two watched links; statuses at the last computation (snapshot) and now (current) enumerated"""
    def build(cx):
        class _El(object):
            def __init__(self, name):
                self.name = name
        la, lb = _El("A"), _El("B")
        keys = [(la, "status"), (lb, "status")]
        prev = {k: v for k, v in zip(keys, current_state)}
        snap = {k: v for k, v in zip(keys, snapshot_state)} if not first else {}
        log = []
        valve = _El("V")
        wn = _types.SimpleNamespace(prvs=lambda: [("V", valve)], psvs=lambda: [], fcvs=lambda: [])
        chk = cx.obj(_core._ValveSourceChecker, wn=wn, graph="graph", _previous_values=prev, _values_at_last_compute=snap, _needs_compute=needs,
                     _cached_results=({} if first else {valve: "stale"}), _first_compute=first)
        m = cx.interp.models
        m.register(_core._check_upstream_sources, lambda i, a, k: (log.append(("up", a[2])), "fresh")[1], trusted="graph search (networkx), bounded by C09 / C10 stand-ins")
        m.register(_core._check_downstream_sources, lambda i, a, k: (log.append(("down", a[2])), "fresh")[1], trusted="graph search (networkx)")
        cx.target(_core._ValveSourceChecker.should_valve_be_opened, chk, valve)

        def post(out):
            if not out.returned:
                return []
            changed = (not first) and any(snapshot_state[i] != current_state[i] for i in range(2))
            must = first or (needs and changed)
            g = lambda a: cx.interp.getattr(chk, a)
            posts = [("answers_recomputed_exactly_when_a_watched_status_changed_since_they_were_computed_or_never_computed", (len(log) == 1) == must),
                     ("answer_is_the_fresh_one_after_a_recomputation_the_cached_one_otherwise", out.value == ("fresh" if must else "stale")),
                     ("nothing_left_to_compute", g("_needs_compute") is False and g("_first_compute") is False)]
            if must:
                posts.append(("the_statuses_the_answers_were_computed_for_are_remembered", dict(g("_values_at_last_compute")) == prev))
            return posts
        cx.ensure(post)
    nm = lambda st: "/".join(s.name for s in st)
    return Case("first=%s,needs_compute=%s,at_last_compute=%s,now=%s" % (first, needs, nm(snapshot_state), nm(current_state)), build, crosscheck=False)


_STATES = [(_LS.Open, _LS.Open), (_LS.Closed, _LS.Open), (_LS.Open, _LS.Closed)]
CONTRACTS = [Contract("wntr.sim.core:_ValveSourceChecker.should_valve_be_opened/_compute", P + ["C02"],
                      [_checker_case(True, True, _STATES[0], s_) for s_ in _STATES[:2]] +
                      [_checker_case(False, n_, a_, b_) for n_ in (True, False) for a_ in _STATES for b_ in _STATES],
                      note="enumerated: two watched links x their statuses at the last computation and now; the graph searches are stubs")]


def _checker_update_case(old, new):
    """update(action): the graph of links that convey water follows the status the action has just written"""
    def build(cx):
        import networkx as nx

        class _El(object):
            def __init__(self, name, **kw):
                self.name = name
                self.__dict__.update(kw)
        a, b = _El("a"), _El("b")
        link = _El("L", start_node=a, end_node=b, status=new)
        other = _El("M", start_node=a, end_node=b, status=_LS.Open)
        g = nx.MultiGraph()
        g.add_nodes_from([a, b])
        g.add_edge(a, b, other)
        if old != _LS.Closed:
            g.add_edge(a, b, link)
        action = _types.SimpleNamespace(target=lambda: (link, "status"))
        chk = cx.obj(_core._ValveSourceChecker, wn=None, graph=g, _previous_values={(link, "status"): old, (other, "status"): _LS.Open}, _values_at_last_compute={},
                     _needs_compute=False, _cached_results={}, _first_compute=False)
        cx.target(_core._ValveSourceChecker.update, chk, action)

        def post(out):
            if not out.returned:
                return []
            has = g.has_edge(a, b, link)
            gg = lambda x: cx.interp.getattr(chk, x)
            return [("graph_holds_the_link_iff_it_is_not_closed", has == (new != _LS.Closed)),
                    ("the_other_link_is_untouched", g.has_edge(a, b, other) and g.number_of_edges() == (2 if has else 1)),
                    ("a_recomputation_is_requested_iff_the_status_changed", bool(gg("_needs_compute")) == (old != new)),
                    ("the_new_status_is_remembered", gg("_previous_values")[(link, "status")] == new)]
        cx.ensure(post)
    return Case("status %s -> %s" % (old.name, new.name), build, crosscheck=False)


CONTRACTS.append(Contract("wntr.sim.core:_ValveSourceChecker.update", P + ["C02"],
                          [_checker_update_case(o_, n_) for o_ in (_LS.Open, _LS.Closed, _LS.Active) for n_ in (_LS.Open, _LS.Closed, _LS.Active)],
                          note="enumerated status changes of one watched link beside another link of the same node pair (a networkx MultiGraph, executed natively)"))


def _checker_init_case(cur, init):
    """a checker built for a model that has already run (a continued simulation) starts from the CURRENT link statuses, not the initial ones"""
    def build(cx):
        from contracts._net import mk_node, mk_link
        from wntr.network.elements import Junction, Pipe
        a, b, c = mk_node(cx, Junction, "a"), mk_node(cx, Junction, "b"), mk_node(cx, Junction, "c")
        l1 = mk_link(cx, Pipe, "L1", a, b, _user_status=cur, _internal_status=_LS.Active, _initial_status=init)
        l2 = mk_link(cx, Pipe, "L2", b, c, _user_status=_LS.Open, _internal_status=_LS.Active, _initial_status=_LS.Open)
        wn = _types.SimpleNamespace(nodes=lambda: [("a", a), ("b", b), ("c", c)], links=lambda: [("L1", l1), ("L2", l2)])
        holder = []

        def make(w):
            ch = _core._ValveSourceChecker(w)
            holder.append(ch)
            act = _types.SimpleNamespace(target=lambda: (l1, "status"), subscribe=lambda obs: holder.append(("subscribed", obs)))
            ctl = _types.SimpleNamespace(actions=lambda: [act])
            ch.register_control(ctl)
            return ch
        cx.interp.interpret_always = tuple(cx.interp.interpret_always) + (make, _core._ValveSourceChecker)
        import networkx as nx
        for meth in ("add_nodes_from", "add_edges_from", "add_edge", "remove_edge", "add_node"):
            f_ = getattr(nx.MultiGraph, meth)
            cx.interp.models.register(f_, (lambda name: lambda i, a, k: getattr(a[0], name)(*a[1:], **k))(meth), trusted="networkx graph mutators run natively on the symbolic elements (identity-keyed)")
        cx.target(make, wn)

        def post(out):
            if not out.returned:
                return []
            ch = out.value
            g = cx.interp.getattr(ch, "graph")
            prev = cx.interp.getattr(ch, "_previous_values")
            return [("graph_holds_a_link_iff_its_current_status_is_not_closed", g.has_edge(a, b, l1) == (cur != _LS.Closed) and g.has_edge(b, c, l2)),
                    ("every_node_is_in_the_graph", set(g.nodes()) == {a, b, c}),
                    ("the_remembered_status_of_a_watched_link_is_its_current_status", any(k[0] is l1 and k[1] == "status" and v == cur for k, v in prev.items())),
                    ("the_checker_subscribes_to_the_status_action", any(isinstance(x, tuple) and x[0] == "subscribed" for x in holder))]
        cx.ensure(post)
    return Case("current=%s,initial=%s" % (cur.name, init.name), build, crosscheck=False)


CONTRACTS.append(Contract("wntr.sim.core:_ValveSourceChecker.__init__/register_control", P + ["C02"],
                          [_checker_init_case(c_, i_) for c_ in (_LS.Open, _LS.Closed) for i_ in (_LS.Open, _LS.Closed)],
                          note="a link whose current status differs from its initial status (the model was paused after a control acted)"))
