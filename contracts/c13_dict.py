"""C13 — dictionary / JSON round trip.

Deductive core (pyvc): wntr.network.io.from_dict is executed symbolically, one element dictionary at a time, on a
contract stub of the model: the keys are exactly those the real to_dict of that element class writes (computed by
running the real reflective to_dict on a real instance), the values are symbolic. Obligation per (class, key): the
value stored under the key reaches the constructor parameter or the attribute that to_dict reads it back from.
Bounded: to_dict(from_dict(to_dict(wn))) == to_dict(wn), also through JSON text, on the enumerated feature models
and example networks; appending to an empty model equals creating the model.
"""
import copy
import json
import os
import types
import warnings

import z3

from pyvc.core import Contract, Case
from pyvc.runner import Bounded
from pyvc.values import SV, SymObj, NativeModel
from pyvc import library

import wntr
import wntr.network.io as IO
from wntr.network import elements as EL

P = ["C13"]

# constructor parameter -> dictionary key it must be fed from (parameter names of WaterNetworkModel.add_*)
PARAM_KEY = dict(demand_pattern="pattern_name", base_demand="base_demand", demand_category="demand_category", vol_curve="vol_curve_name",
                 head_pattern="head_pattern_name", speed="base_speed", pattern="speed_pattern_name", quality="strength")
# keys to_dict writes that are derived from other keys / read-only views (nothing to restore)
DERIVED = {"name", "node_type", "link_type", "start_node_name", "end_node_name", "pump_type", "valve_type", "demand_timeseries_list",
           "base_demand", "pattern_name", "demand_pattern", "demand_category", "vol_curve", "start_node", "end_node", "headloss_curve"}
# keys that no API can change for that class (to_dict writes the constant default)
CONSTANT = {"R": {"leak", "leak_area", "leak_discharge_coeff"}}


def _instances():
    """real instances of every element class (for the key sets only)"""
    wn = wntr.network.WaterNetworkModel()
    wn.add_pattern("p", [1.0, 2.0])
    wn.add_curve("c", "HEAD", [(0.1, 10.0)])
    wn.add_curve("v", "VOLUME", [(0.0, 0.0), (5.0, 100.0)])
    wn.add_curve("h", "HEADLOSS", [(0.0, 0.0), (1.0, 1.0)])
    wn.add_junction("J", base_demand=0.1, demand_pattern="p", elevation=1.0, coordinates=(1.0, 2.0), demand_category="dom")
    wn.add_junction("K", base_demand=0.1)
    wn.add_tank("T", elevation=1.0, init_level=1.0, min_level=0.0, max_level=2.0, diameter=3.0, vol_curve="v", coordinates=(1.0, 1.0))
    wn.add_reservoir("R", base_head=10.0, head_pattern="p", coordinates=(0.0, 0.0))
    wn.add_pipe("P", "J", "K", length=10.0, diameter=0.3, roughness=100.0, minor_loss=0.1, initial_status="OPEN", check_valve=False)
    wn.add_pump("HP", "J", "K", pump_type="HEAD", pump_parameter="c", speed=1.0, pattern="p")
    wn.add_pump("PP", "J", "K", pump_type="POWER", pump_parameter=100.0)
    for vt in ("PRV", "PSV", "PBV", "FCV", "TCV"):
        wn.add_valve(vt, "J", "K", diameter=0.3, valve_type=vt, minor_loss=0.0, initial_setting=1.0)
    wn.add_valve("GPV", "J", "K", diameter=0.3, valve_type="GPV", initial_setting="h")
    # optional attributes carry a number (a key whose value is None in the instance stays None in the case; a number becomes an arbitrary value)
    j = wn.get_node("J")
    j.minimum_pressure, j.required_pressure, j.pressure_exponent, j.emitter_coefficient, j.initial_quality = 3.0, 25.0, 0.6, 0.01, 0.5
    t = wn.get_node("T")
    t.initial_quality, t.bulk_coeff, t.mixing_fraction, t.min_vol = 0.4, -0.1, 0.3, 12.0
    t.mixing_model = "2COMP"
    wn.get_node("R").initial_quality = 0.2
    p_ = wn.get_link("P")
    p_.bulk_coeff, p_.wall_coeff, p_.initial_quality = -0.2, -0.05, 0.1
    for ln in ("HP", "PP"):
        wn.get_link(ln).initial_quality = 0.1
        wn.get_link(ln).energy_price = 0.2
    wn.get_link("HP").initial_setting = 1.0
    return wn


_WN = None


def _keys(name):
    global _WN
    if _WN is None:
        with warnings.catch_warnings():
            warnings.simplefilter("ignore")
            _WN = _instances()
    el = _WN.get_node(name) if name in _WN.node_name_list else _WN.get_link(name)
    return el.to_dict()


class Wn(NativeModel):
    def __init__(self):
        self.created = []
        self.objs = {}
        self.name = None
        self.options = types.SimpleNamespace()

    def _add(self, kind, cls, name, kw):
        o = SymObj(cls, dict(_name=name, _link_name=name, _vertices=[], _node_reg=None, _curve_reg=_Reg(), _pattern_reg=_Reg(),
                             _headloss_curve_name=None))      # attributes the real __init__ always creates
        self.created.append((kind, name, dict(kw), o))
        self.objs[name] = o
        return o

    def add_junction(self, name, **kw):
        self._add("junction", EL.Junction, name, kw)

    def add_tank(self, name, **kw):
        self._add("tank", EL.Tank, name, kw)

    def add_reservoir(self, name, **kw):
        self._add("reservoir", EL.Reservoir, name, kw)

    def add_pipe(self, name, start_node_name, end_node_name=None, **kw):
        self._add("pipe", EL.Pipe, name, dict(kw, start_node_name=start_node_name, end_node_name=end_node_name))

    def add_pump(self, name, start_node_name, end_node_name, **kw):
        cls = EL.PowerPump if str(kw.get("pump_type")).upper() == "POWER" else EL.HeadPump
        self._add("pump", cls, name, dict(kw, start_node_name=start_node_name, end_node_name=end_node_name))

    def add_valve(self, name, start_node_name, end_node_name, **kw):
        cls = {"PRV": EL.PRValve, "PSV": EL.PSValve, "PBV": EL.PBValve, "FCV": EL.FCValve, "TCV": EL.TCValve, "GPV": EL.GPValve}[kw["valve_type"]]
        self._add("valve", cls, name, dict(kw, start_node_name=start_node_name, end_node_name=end_node_name))

    def get_node(self, name):
        return self.objs[name]

    get_link = get_node

    def add_curve(self, name=None, curve_type=None, xy_tuples_list=None):
        self.created.append(("curve", name, dict(curve_type=curve_type, points=xy_tuples_list), None))

    def add_pattern(self, name=None, pattern=None):
        self.created.append(("pattern", name, dict(multipliers=pattern), None))


class _Reg(NativeModel):
    def remove_usage(self, *a):
        pass

    def add_usage(self, *a):
        pass

    def set_curve_type(self, *a):
        pass

    def __getitem__(self, k):
        return None


def _models():
    m = library.build_models()
    import builtins
    # dir() of a symbolic instance: the attribute names of its real class (what from_dict's "custom attributes" loop subtracts)
    m.register(builtins.dir, lambda interp, args, kw: dir(args[0].cls) if isinstance(args[0], SymObj) else dir(args[0]))
    return m


def _element_case(elname, group):
    def build(cx):
        real = _keys(elname)
        d = {}
        sym = {}
        for k, v in real.items():
            if k in ("name", "node_type", "link_type", "pump_type", "valve_type", "start_node_name", "end_node_name") or isinstance(v, (str, bool, list, tuple, dict)) or v is None \
                    or k in DERIVED or k in CONSTANT.get(elname, ()):
                d[k] = copy.deepcopy(v)          # structural / discrete keys stay as the real to_dict wrote them
            else:
                sym[k] = cx.real("val_" + k)     # numeric keys: arbitrary values
                d[k] = sym[k]
        d.setdefault("tag", None)
        tagv = cx.name("tag_value")
        d["tag"] = tagv
        sym["tag"] = tagv
        wn = Wn()
        cx.d, cx.sym, cx.wn = d, sym, wn
        cx.target(IO.from_dict, {group: [d]}, wn)

        def post(out):
            if not out.returned:
                return []
            posts = [("one_element_created_with_the_given_name", len(wn.created) == 1 and wn.created[0][1] == real["name"])]
            if len(wn.created) != 1:
                return posts
            kind, nm, kw, obj = wn.created[0]
            fed = {}
            for p_, v in kw.items():
                if p_ == "pump_parameter":
                    fed["power" if obj.cls is EL.PowerPump else "pump_curve_name"] = v
                else:
                    fed[PARAM_KEY.get(p_, p_)] = v
            for k in real:
                if k in DERIVED or k in CONSTANT.get(elname, ()):
                    continue
                want = d[k]
                got = fed.get(k, None)
                if k not in fed:
                    # restored through an attribute assignment after construction (property setters are interpreted)
                    got = obj.fields.get("_" + k, obj.fields.get(k, "<never assigned>"))
                import enum as _enum
                if isinstance(got, _enum.Enum) and isinstance(want, str):
                    got = got.name           # (to_dict writes an enum member by its name)
                if isinstance(want, SV):
                    ok = isinstance(got, SV) and got.t.eq(want.t)
                    if not ok and isinstance(got, SV):
                        ok = library.as_real(got) == library.as_real(want)
                else:
                    ok = (got == want) or (isinstance(want, (list, tuple)) and list(map(tuple, got or [])) == list(map(tuple, want))) or \
                        (want is None and got in (None, "<never assigned>"))
                posts.append(("value_of_key_%s_reaches_the_element" % k, ok))
            return posts
        cx.ensure(post)
    return Case("%s" % elname, build, crosscheck=False)


_cases = [_element_case(n, "nodes") for n in ("J", "T", "R")] + [_element_case(n, "links") for n in ("P", "HP", "PP", "PRV", "PSV", "PBV", "FCV", "TCV", "GPV")]


# ---------------------------------------------------------------------------- bounded round trips

def _roundtrip(tier, seed):
    import sys
    sys.path.insert(0, os.path.dirname(os.path.dirname(os.path.abspath(__file__))))
    from bounded import models as M
    import tempfile
    warnings.simplefilter("ignore")
    evals, distinct, failures, samples, known = 0, set(), [], [], []
    for name, wn in M.all_models(tier) + M.dict_only_models():
        d0 = wntr.network.to_dict(wn)
        for mode in ("dict", "json", "append"):
            try:
                if mode == "dict":
                    w2 = wntr.network.from_dict(copy.deepcopy(d0))
                elif mode == "json":
                    fd, fn = tempfile.mkstemp(suffix=".json", dir=os.path.join(os.path.dirname(os.path.dirname(os.path.abspath(__file__))), ".scratch"))
                    os.close(fd)
                    try:
                        wntr.network.write_json(wn, fn)
                        w2 = wntr.network.read_json(fn)
                    finally:
                        os.unlink(fn)
                else:
                    w2 = wntr.network.from_dict(copy.deepcopy(d0), append=wntr.network.WaterNetworkModel())
                d1 = wntr.network.to_dict(w2)
            except Exception as e:
                from pyvc.runner import known_bounded
                kf = known_bounded("C13", "C13.round_trip[%s]" % name)      # listed in known_findings.json (never written at run time)
                if kf is not None:
                    known.append("%s [%s, %s: %s]" % (kf["what_fails"][:160], name, mode, type(e).__name__))
                else:
                    failures.append(dict(model=name, mode=mode, raised=repr(e)[:200]))
                continue
            evals += 1
            distinct.add((name, mode))
            a, b = M.normalize_json(d0), M.normalize_json(d1)
            df = M.diff(a, b)
            if df:
                failures.append(dict(model=name, mode=mode, differences=[(p_, repr(x)[:60], repr(y)[:60]) for p_, x, y in df[:5]]))
            if len(samples) < 3:
                samples.append(dict(model=name, mode=mode, nodes=len(d0["nodes"]), links=len(d0["links"]), controls=len(d0["controls"])))
    return dict(evaluations=evals, distinct_nontrivial=len(distinct), failures=failures[:10], samples=samples, exhaustive=False, known=sorted(set(known)),
                scope="feature models (every node/link/valve type, vertices, tags, multi-demand junction, leaks, sources, simple controls, rules with AND/OR/ELSE/priority) "
                      "and example networks x {from_dict(to_dict), read_json(write_json), append to an empty model}: to_dict equal after JSON normalisation")


def _demand_list_case(n):
    """a junction with n demand entries (base value, pattern, category all symbolic; categories / patterns present or None in a
    mixed arrangement): the first entry feeds add_junction, every later entry one add_demand call with its own three values, in order"""
    def build(cx):
        real = _keys("J")
        d = {k: copy.deepcopy(v) for k, v in real.items()}
        entries = []
        for i in range(n):
            entries.append(dict(base_val=cx.real("base%d" % i), pattern_name=(cx.name("pattern%d" % i) if i % 2 == 0 else None),
                                category=(cx.name("category%d" % i) if i in (0, 2) else None)))
        d["demand_timeseries_list"] = [dict(e) for e in entries]
        wn = Wn()
        calls = []
        cx.interp.models.register(EL.Junction.add_demand, lambda interp, args, kw: calls.append(tuple(args[1:]) + tuple(kw.values())),
                                  verified_by="Junction.add_demand appends Demands entry (base, pattern, category) (C20 demand contracts)")
        cx.target(IO.from_dict, {"nodes": [d]}, wn)

        def same(a, b):
            if a is None or b is None:
                return a is None and b is None
            if isinstance(a, SV) and isinstance(b, SV):
                return bool(a.t.eq(b.t))
            return a == b

        def post(out):
            if not out.returned:
                return []
            ok_created = len(wn.created) == 1
            posts = [("one_junction_created", ok_created)]
            if not ok_created:
                return posts
            kw = wn.created[0][2]
            posts.append(("first_entry_feeds_the_junction_s_own_demand", same(kw.get("base_demand"), entries[0]["base_val"]) and
                          same(kw.get("demand_pattern"), entries[0]["pattern_name"]) and same(kw.get("demand_category"), entries[0]["category"])))
            posts.append(("one_add_demand_call_per_later_entry", len(calls) == n - 1))
            for i, c in enumerate(calls[:n - 1]):
                e = entries[i + 1]
                posts.append(("entry_%d_restored_with_its_own_base_value_pattern_and_category" % (i + 1),
                              len(c) == 3 and same(c[0], e["base_val"]) and same(c[1], e["pattern_name"]) and same(c[2], e["category"])))
            return posts
        cx.ensure(post)
    return Case("junction_with_%d_demand_entries" % n, build, crosscheck=False)


def _curves_patterns_case():
    """curves keep their points in the order given (also a curve that is not sorted by x), patterns their multipliers"""
    def build(cx):
        pts = [[3.0, 1.0], [1.0, 2.0], [2.0, 0.5]]
        mult = [1.0, 0.5, 2.0, 0.5]
        d = dict(curves=[dict(name="c", curve_type="HEAD", points=[list(p_) for p_ in pts]), dict(name="u", curve_type=None, points=[[0.0, 0.0]])],
                 patterns=[dict(name="p", multipliers=list(mult))])
        wn = Wn()
        cx.target(IO.from_dict, d, wn)

        def post(out):
            if not out.returned:
                return []
            cur = [c for c in wn.created if c[0] == "curve"]
            pat = [c for c in wn.created if c[0] == "pattern"]
            norm = lambda ps: [[float(a), float(b)] for a, b in ps]
            return [("every_curve_and_pattern_created_once", [c[1] for c in cur] == ["c", "u"] and [c[1] for c in pat] == ["p"]),
                    ("curve_type_and_points_kept_in_their_order", len(cur) == 2 and cur[0][2]["curve_type"] == "HEAD" and norm(cur[0][2]["points"]) == pts and cur[1][2]["curve_type"] is None),
                    ("pattern_multipliers_kept", len(pat) == 1 and list(pat[0][2]["multipliers"]) == mult)]
        cx.ensure(post)
    return Case("curves_and_patterns", build, crosscheck=False)


CONTRACTS = [Contract("wntr.network.io:from_dict", P + ["C07"], _cases + [_curves_patterns_case(), _demand_list_case(1), _demand_list_case(3), _demand_list_case(4)], models=_models,
                      trusted=["WaterNetworkModel.add_junction/add_tank/add_reservoir/add_pipe/add_pump/add_valve store each parameter in the attribute of the same meaning (C14)",
                               "Node.to_dict / Link.to_dict are reflective: the key set is computed by running them on real instances"])]
def _options_constructors(tier, seed):
    """every keyword of every options constructor (the path from_dict takes: Options(**d['options'])) ends in the attribute of the same name:
    each section is built from keyword values that differ from the defaults and from each other, one keyword at a time and all together"""
    import inspect
    import wntr.network.options as O
    evals, failures, samples = 0, [], []
    special = dict(statistic="RANGE", headloss="C-M", demand_model="PDA", unbalanced="CONTINUE", parameter="AGE", inpfile_units="LPS", inpfile_pressure_units="KPA",
                   status="FULL", summary="NO", energy="YES", units="METERS", pattern="p9", hydraulics="USE", hydraulics_filename="h.hyd", trace_node="n1", chemical_name="Cl2",
                   global_pattern="p8", report_filename="r.rpt", image_filename="i.png", map_filename="m.map", pattern_interpolation=True, nodes=True, links=True,
                   dimensions=[0.0, 1.0, 2.0, 3.0], offset=[1.0, 2.0], pagesize=[10, 20], report_params=None, param_opts=None, unbalanced_value=9)
    for cname in ("TimeOptions", "HydraulicOptions", "QualityOptions", "ReactionOptions", "EnergyOptions", "ReportOptions", "GraphicsOptions"):
        cls = getattr(O, cname)
        params = [p_ for p_ in inspect.signature(cls.__init__).parameters if p_ != "self"]
        vals = {}
        for i, p_ in enumerate(params):
            if p_ in special:
                if special[p_] is not None:
                    vals[p_] = special[p_]
                continue
            d = inspect.signature(cls.__init__).parameters[p_].default
            vals[p_] = (int(d) + 3 + i) if isinstance(d, int) and not isinstance(d, bool) else (float(d or 0.0) + 0.125 * (i + 1))
        for subset in [dict([kv]) for kv in vals.items()] + [vals]:
            try:
                obj = cls(**subset)
            except Exception as e:
                failures.append(dict(options=cname, keywords=sorted(subset), raised=repr(e)[:160]))
                continue
            evals += 1
            bad = {k: (v, getattr(obj, k, "<missing>")) for k, v in subset.items() if getattr(obj, k, "<missing>") != v}
            if bad and len(failures) < 10:
                failures.append(dict(options=cname, keywords=sorted(subset), not_stored_as_given={k: [repr(a), repr(b)] for k, (a, b) in bad.items()}))
        samples.append(dict(options=cname, keywords=len(vals)))
    return dict(evaluations=evals, distinct_nontrivial=evals, failures=failures, samples=samples[:3], exhaustive=True,
                scope="every keyword of the constructors of the seven option sections, singly and all together, with values different from the defaults: "
                      "the attribute of the same name holds the value given")


BOUNDED = [Bounded("C13.round_trip", P, _roundtrip, kind="enumerated models, run-time contract"),
           Bounded("C13.options_constructors", P, _options_constructors, kind="exhaustive over constructor keywords")]
