"""C11 — simulating never alters the definition; reset and rerun reproduce.

Deductive core
  * frame obligations (syntactic, recomputed from the current source on every run): the set of attributes assigned
    anywhere in the simulation code (wntr/sim/*.py, wntr/sim/models/*.py and the run/evaluate methods of
    wntr/network/controls.py - plain assignments, augmented assignments and setattr with a literal name) is disjoint
    from the set of attributes the real to_dict of each element class reads (traced reflectively on real instances);
    the attribute written by a ControlAction is decided by ControlAction.__init__ (contract in c05_conditions.py);
  * WaterNetworkModel.reset_initial_values (pyvc, generic iteration per element class): every simulation-state
    attribute is put back to the value a freshly loaded model has.
Bounded: to_dict before / after WNTRSimulator and EpanetSimulator runs, reset + rerun, deepcopy, on feature models and
example networks.
"""
import ast
import copy
import inspect
import os
import textwrap
import types
import warnings

import z3

from pyvc.core import Contract, Case
from pyvc.runner import Lemma, Bounded
from pyvc.values import SV, SymObj, NativeModel, GenericIter
from pyvc import library

import wntr
from wntr.network import LinkStatus
from wntr.network.model import WaterNetworkModel
from wntr.network.elements import Junction, Tank, Reservoir, Pipe, HeadPump, PowerPump, PRValve, Pump, Valve
from contracts._net import mk_node, mk_link

P = ["C11"]


# ---------------------------------------------------------------------------- frame: writes of the simulation code vs definition reads

def _assigned_attrs(fn_or_src, only_functions=None):
    """attribute names assigned in the source: X.a = ..., X.a += ..., setattr(X, 'a', ...)"""
    src = fn_or_src if isinstance(fn_or_src, str) else textwrap.dedent(inspect.getsource(fn_or_src))
    tree = ast.parse(src)
    out = {}
    funcs = [n for n in ast.walk(tree) if isinstance(n, (ast.FunctionDef,))]
    for f in funcs:
        if only_functions is not None and f.name not in only_functions:
            continue
        for n in ast.walk(f):
            tg = []
            if isinstance(n, ast.Assign):
                tg = n.targets
            elif isinstance(n, (ast.AugAssign, ast.AnnAssign)):
                tg = [n.target]
            elif isinstance(n, ast.Call) and isinstance(n.func, ast.Name) and n.func.id == "setattr" and len(n.args) >= 2 and isinstance(n.args[1], ast.Constant):
                out.setdefault(n.args[1].value, []).append("%s:%d" % (f.name, n.lineno))
            for t in tg:
                for e in (t.elts if isinstance(t, (ast.Tuple, ast.List)) else [t]):
                    if isinstance(e, ast.Attribute) and not (isinstance(e.value, ast.Name) and e.value.id in ("self", "cls") and f.name == "__init__"):
                        out.setdefault(e.attr, []).append("%s:%d" % (f.name, n.lineno))
    return out


def _sim_writes():
    import wntr.sim.core as core
    import wntr.sim.hydraulics as hyd
    import wntr.sim.solvers as solvers
    import wntr.sim.models.constraint as mc
    import wntr.sim.models.param as mp
    import wntr.sim.models.var as mv
    import wntr.sim.models.constants as mk
    import wntr.network.controls as ctl
    w = {}
    for mod in (core, hyd, solvers, mc, mp, mv, mk):
        for a, where in _assigned_attrs(inspect.getsource(mod)).items():
            w.setdefault(a, []).extend(["%s.%s" % (mod.__name__, x) for x in where])
    for a, where in _assigned_attrs(inspect.getsource(ctl), only_functions={"run_control_action", "evaluate", "update", "notify", "is_control_action_required", "_reset"}).items():
        w.setdefault(a, []).extend(["wntr.network.controls.%s" % x for x in where])
    return w


class _Tracer:
    """records which instance attributes the real to_dict reads"""


def _definition_reads():
    """private attribute names read while the real to_dict of each element class runs (traced on real instances)"""
    import sys
    sys.path.insert(0, os.path.dirname(os.path.dirname(os.path.abspath(__file__))))
    from bounded import models as M
    with warnings.catch_warnings():
        warnings.simplefilter("ignore")
        wn = M.base_model(0)
    reads = {}
    for name, el in list(wn.nodes()) + list(wn.links()):
        cls = type(el)
        seen = set()
        orig = cls.__getattribute__

        def spy(self, attr, _orig=orig, _seen=seen):
            if attr.startswith("_") and not attr.startswith("__"):
                _seen.add(attr)
            return _orig(self, attr)
        try:
            cls.__getattribute__ = spy
            el.to_dict()
        finally:
            del cls.__getattribute__
        reads.setdefault(cls.__name__, set()).update(seen)
    # registries / options are reached through these references, not definition values of the element itself
    for k in reads:
        reads[k] -= {"_pattern_reg", "_curve_reg", "_node_reg", "_options", "_link_reg"}
    return reads


def _model_reaching_assignments():
    """assignments in the two simulators and the INP writer whose target is reached from the model object: the chain is rooted at `wn`,
    `self._wn`, `self.wn`, passes through `.options`, or is rooted at a local alias of such an expression (one level)"""
    import wntr.sim.core as core
    import wntr.sim.hydraulics as hyd
    import wntr.sim.epanet as sepa
    import wntr.epanet.io as eio

    def chain(e):
        out = []
        while isinstance(e, (ast.Attribute, ast.Subscript)):
            if isinstance(e, ast.Attribute):
                out.append(e.attr)
            e = e.value
        out.append(e.id if isinstance(e, ast.Name) else "<%s>" % type(e).__name__)
        return list(reversed(out))

    def reaches(c, aliases):
        return "options" in c or c[0] in ("wn",) or c[:2] in (["self", "_wn"], ["self", "wn"]) or c[0] in aliases
    found = []
    for mod, pred in ((core, lambda n: True), (hyd, lambda n: True), (sepa, lambda n: True),
                      (eio, lambda n: n == "write" or n.startswith("_write"))):
        tree = ast.parse(inspect.getsource(mod))
        for f in ast.walk(tree):
            if not (isinstance(f, ast.FunctionDef) and pred(f.name)):
                continue
            aliases = set()
            for n in ast.walk(f):       # locals bound to (a part of) the model
                if isinstance(n, ast.Assign) and len(n.targets) == 1 and isinstance(n.targets[0], ast.Name) and isinstance(n.value, ast.Attribute):
                    c = chain(n.value)
                    if ("options" in c or c[:2] in (["self", "_wn"], ["self", "wn"])) and c[-1] in ("options", "time", "hydraulic", "quality", "reaction", "energy", "_wn", "wn"):
                        aliases.add(n.targets[0].id)
            for n in ast.walk(f):
                tg = n.targets if isinstance(n, ast.Assign) else [n.target] if isinstance(n, (ast.AugAssign, ast.AnnAssign)) else []
                for t in tg:
                    for e in (t.elts if isinstance(t, (ast.Tuple, ast.List)) else [t]):
                        if isinstance(e, (ast.Attribute, ast.Subscript)):
                            c = chain(e)
                            if len(c) > 1 and reaches(c, aliases) and not (f.name == "__init__" and len(c) == 2 and c[0] == "self"):
                                found.append((".".join(c), "%s:%s:%d" % (mod.__name__, f.name, n.lineno)))
    return found


# simulation-state attributes that to_dict reads only to *skip* them or through read-only views (documented exclusions of to_dict)
def _frame_lemma():
    writes = _sim_writes()
    reads = _definition_reads()
    items = []
    for cls, attrs in sorted(reads.items()):
        clash = sorted(a for a in attrs if a in writes)
        items.append(("simulation_code_assigns_no_definition_attribute_of_%s" % cls, [], z3.BoolVal(not clash) if not clash else z3.And(z3.BoolVal(False), z3.Bool("assigned:" + ",".join("%s@%s" % (a, writes[a][0]) for a in clash)))))
    # options, registries and the model object itself: the simulators and the INP writer assign nothing reached from the model except the clock
    bad = sorted("%s@%s" % (c, w) for c, w in _model_reaching_assignments() if c.split(".")[-1] not in ("sim_time", "_prev_sim_time"))
    items.append(("simulators_and_inp_writer_assign_nothing_reached_from_the_model_but_its_clock", [],
                  z3.BoolVal(True) if not bad else z3.And(z3.BoolVal(False), z3.Bool("assigned:" + ",".join(bad[:6])))))
    # the dynamic write of ControlAction: the attribute names it can hold (ControlAction.__init__ contract)
    for a in ("_user_status", "_setting", "_leak_status", "_internal_status"):
        bad = [c for c, attrs in reads.items() if a in attrs]
        items.append(("control_action_target_%s_is_not_a_definition_attribute" % a, [], z3.BoolVal(not bad)))
    return items


# ---------------------------------------------------------------------------- reset_initial_values

class WnReset(NativeModel):
    def __init__(self):
        self.N, self.L, self.C = [], [], []
        self.sim_time, self._prev_sim_time = "dirty", "dirty"

    def nodes(self, typ=None):
        return GenericIter([(n, o) for n, o in self.N if typ is None or issubclass(o.cls, typ)])

    def links(self, typ=None):
        return GenericIter([(n, o) for n, o in self.L if typ is None or issubclass(o.cls, typ)])

    def controls(self):
        return GenericIter(list(self.C))


class Ctl(NativeModel):
    def __init__(self):
        self.resets = 0

    def _reset(self):
        self.resets += 1


def _reset_case(kind):
    def build(cx):
        wn = WnReset()
        dirty = lambda nm: cx.real("dirty_" + nm)
        if kind == "junction":
            el = mk_node(cx, Junction, "J", _head=dirty("head"), _demand=dirty("demand"), _pressure=dirty("p"), _leak_demand=dirty("ld"), _leak_status=True, _is_isolated=True)
            wn.N.append(("J", el))
        elif kind == "tank":
            el = mk_node(cx, Tank, "T", _head=dirty("head"), _prev_head=dirty("ph"), _demand=dirty("demand"), _leak_demand=dirty("ld"), _leak_status=True, _is_isolated=True,
                         _init_level=cx.real("init_level"), _elevation=cx.real("elevation"))
            wn.N.append(("T", el))
        elif kind == "reservoir":
            el = mk_node(cx, Reservoir, "R", _head=dirty("head"), _demand=dirty("demand"), _leak_demand=dirty("ld"), _is_isolated=True)
            wn.N.append(("R", el))
        else:
            cls = {"pipe": Pipe, "head_pump": HeadPump, "power_pump": PowerPump, "valve": PRValve}[kind]
            class _CR(NativeModel):
                def remove_usage(self, *a):
                    pass
            extra = dict(_base_power=cx.real("base_power"), _pump_curve_name=None, _curve_reg=_CR()) if kind == "power_pump" else {}
            el = mk_link(cx, cls, "L", None, None, _user_status=LinkStatus.Closed, _internal_status=LinkStatus.Closed, _is_isolated=True, _flow=dirty("flow"),
                         _setting=dirty("setting"), _prev_setting=dirty("ps"), _initial_status=LinkStatus.Open, _initial_setting=cx.real("initial_setting"), **extra)
            wn.L.append(("L", el))
        c = Ctl()
        wn.C.append(("c", c))
        cx.target(WaterNetworkModel.reset_initial_values, wn)

        def post(out):
            if not out.returned:
                return []
            f = el.fields
            posts = [("time_reset", wn.sim_time == 0.0 and wn._prev_sim_time is None), ("control_state_reset", c.resets == 1),
                     ("not_isolated", f["_is_isolated"] is False)]
            if kind in ("junction", "tank", "reservoir"):
                posts.append(("results_cleared", f["_demand"] is None and f["_leak_demand"] is None))
            if kind in ("junction", "tank"):
                posts.append(("leak_inactive", f["_leak_status"] is False))
            if kind == "tank":
                posts += [("level_back_to_init_level", library.as_real(f["_head"]) == cx.t(cx.inputs["init_level"]) + cx.t(cx.inputs["elevation"])),
                          ("previous_head_is_the_initial_head", library.as_real(f["_prev_head"]) == library.as_real(f["_head"]))]
            if kind in ("pipe", "head_pump", "power_pump", "valve"):
                posts += [("status_back_to_initial_status", f["_user_status"] is LinkStatus.Open and f["_internal_status"] is LinkStatus.Active),
                          ("setting_back_to_initial_setting", library.as_real(f["_setting"]) == cx.t(cx.inputs["initial_setting"])),
                          ("flow_cleared", f["_flow"] is None and f["_prev_setting"] is None)]
            if kind == "power_pump":
                posts.append(("power_back_to_base_power", library.as_real(f["_base_power"]) == cx.t(cx.inputs["base_power"])))
            return posts
        cx.ensure(post)
    return Case(kind, build, crosscheck=False)


# ---------------------------------------------------------------------------- bounded


def _absdiff_max(a, b):
    """largest |a - b|; NaN on both sides is agreement, NaN on one side only is an infinite difference (np.nanmax alone would hide it)"""
    import numpy as _np
    a, b = _np.asarray(a, dtype=float), _np.asarray(b, dtype=float)
    if a.size == 0:
        return 0.0
    if (_np.isnan(a) != _np.isnan(b)).any():
        return float("inf")
    d = _np.abs(a - b)
    return 0.0 if _np.isnan(d).all() else float(_np.nanmax(d))


def _bounded(shard, nshards):
    def run(tier, seed):
        import sys
        import logging
        import numpy as np
        root = os.path.dirname(os.path.dirname(os.path.abspath(__file__)))
        sys.path.insert(0, root)
        from bounded import models as M
        from pyvc.runner import known_bounded
        warnings.simplefilter("ignore")
        logging.disable(logging.CRITICAL)
        evals, distinct, failures, samples, known = 0, set(), [], [], []
        work = M.simulation_networks(tier)
        # option corners in which a simulator adjusts a setting "for this simulation" (the adjustment must stay inside the simulator)
        def report_below_hydraulic(w):
            w.options.time.hydraulic_timestep = 3600
            w.options.time.report_timestep = 900
        def pdd_low_required_pressure(w):
            w.options.hydraulic.demand_model = "PDD"
            w.options.hydraulic.required_pressure = 0.06      # above the WNTR smoothing delta (0.05 m), below the limit of EPANET (0.1 psi or m)
            w.options.hydraulic.minimum_pressure = 0.0
        def report_not_a_multiple(w):
            w.options.time.hydraulic_timestep = 3600
            w.options.time.report_timestep = 5000
        def unsorted_pump_curve(w):
            # a head pump whose two-point curve was entered high-flow point first (EPANET itself refuses such a curve: WNTRSimulator only)
            pn = w.pump_name_list[0] if w.pump_name_list else None
            if pn is not None and hasattr(w.get_link(pn), "pump_curve_name"):
                w.add_curve("verif_backwards", "HEAD", [(0.12, 40.0), (0.04, 75.0)])
                w.get_link(pn).pump_curve_name = "verif_backwards"

        def rule_registered_under_another_name(w):
            from wntr.network.controls import Rule, ControlAction, SimTimeCondition
            l = w.get_link(w.pipe_name_list[len(w.pipe_name_list) // 2])
            w.add_control("verif_registered_key", Rule(SimTimeCondition(w, ">=", 4 * 3600), [ControlAction(l, "status", 1)], [ControlAction(l, "status", 1)], name="verif_own_name"))
        extra = []
        for name, wn in work[:2]:
            for vn, fn in (("unsorted_pump_curve", unsorted_pump_curve), ("rule_registered_under_another_name", rule_registered_under_another_name)):
                w2 = copy.deepcopy(wn)
                fn(w2)
                extra.append(("%s+%s" % (name, vn), w2))
        for name, wn in work[:3]:
            for vn, fn in (("report_below_hydraulic", report_below_hydraulic), ("pdd_low_required_pressure", pdd_low_required_pressure),
                           ("report_not_a_multiple", report_not_a_multiple)):
                w2 = copy.deepcopy(wn)
                fn(w2)
                extra.append(("%s+%s" % (name, vn), w2))
        work = list(work) + extra
        idx = 0
        for name, wn in work:
            for simname in ("WNTRSimulator", "EpanetSimulator"):
                idx += 1
                if idx % nshards != shard:
                    continue
                if name.startswith("feature:") and simname == "EpanetSimulator" and ("PBV" in wn.valve_name_list or True) and name != "feature:plain":
                    pass
                wn.options.time.duration = min(wn.options.time.duration, 6 * 3600) or 6 * 3600
                key = "C11.definition_unchanged[%s,%s]" % (name, simname)
                try:
                    d0 = M.normalize_json(wntr.network.to_dict(wn))
                    if simname == "WNTRSimulator":
                        r1 = wntr.sim.WNTRSimulator(wn).run_sim()
                    else:
                        r1 = wntr.sim.EpanetSimulator(wn).run_sim(file_prefix=os.path.join(root, ".scratch", "c11_%d" % os.getpid()))
                    d1 = M.normalize_json(wntr.network.to_dict(wn))
                except Exception as e:
                    kf = known_bounded("C11", key)
                    if kf is not None:
                        known.append("%s [%s %s]" % (kf["what_fails"][:150], name, simname))
                    elif simname == "EpanetSimulator" and type(e).__name__ == "EpanetException":
                        continue      # EPANET itself refuses the model (e.g. error 223 for a two-node test network): not a C11 matter
                    elif isinstance(e, NotImplementedError):
                        continue      # the simulator declares the model outside what it supports (e.g. pump speed settings): not a C11 matter
                    else:
                        failures.append(dict(model=name, simulator=simname, raised=repr(e)[:200]))
                    continue
                evals += 1
                distinct.add((name, simname, "definition"))
                df = M.diff(d0, d1, tol=0.0)
                if df:
                    kf = known_bounded("C11", key)
                    if kf is not None:
                        known.append("%s [%s %s]" % (kf["what_fails"][:150], name, simname))
                    else:
                        failures.append(dict(model=name, simulator=simname, definition_changed=[(p_, repr(a)[:50], repr(b)[:50]) for p_, a, b in df[:5]]))
                if simname == "WNTRSimulator":
                    # reset + rerun reproduces; a deepcopy simulates equally
                    wn.reset_initial_values()
                    r2 = wntr.sim.WNTRSimulator(wn).run_sim()
                    wn.reset_initial_values()
                    r3 = wntr.sim.WNTRSimulator(copy.deepcopy(wn)).run_sim()
                    evals += 2
                    distinct.add((name, simname, "rerun"))
                    extra_runs = []
                    hp = [pn_ for pn_, pu in wn.pumps() if getattr(pu, "pump_curve_name", None)]
                    if hp and name.endswith(".inp"):
                        # a definition change between two runs (the curve's points through its setter): the model and a reloaded equal model agree
                        cv = wn.get_curve(wn.get_link(hp[0]).pump_curve_name)
                        old_pts = list(cv.points)
                        cv.points = [(q * 1.0, h * 0.8) for q, h in old_pts]
                        wn.reset_initial_values()
                        r4 = wntr.sim.WNTRSimulator(wn).run_sim()
                        twin = wntr.network.from_dict(copy.deepcopy(wntr.network.to_dict(wn)))
                        r5 = wntr.sim.WNTRSimulator(twin).run_sim()
                        cv.points = old_pts
                        wn.reset_initial_values()
                        evals += 1
                        distinct.add((name, simname, "curve_changed_between_runs"))
                        extra_runs = [("reloaded_equal_model_after_a_curve_change", r4, r5)]
                    for tag, ra, rb in extra_runs:
                        same_index = list(ra.node["head"].index) == list(rb.node["head"].index)
                        worst = 0.0
                        if same_index:
                            for grp, k in (("node", "head"), ("link", "flowrate")):
                                a, b = getattr(ra, grp)[k], getattr(rb, grp)[k]
                                if a.size:
                                    worst = max(worst, _absdiff_max(a.values, b[a.columns].values))
                        if not same_index or worst > 1e-6:
                            failures.append(dict(model=name, check=tag, same_time_index=same_index, max_abs_difference=worst))
                    for tag, rr in (("reset_and_rerun", r2), ("deepcopy", r3)):
                        worst = 0.0
                        same_index = list(rr.node["head"].index) == list(r1.node["head"].index)
                        if same_index:
                            for grp, k in (("node", "head"), ("node", "demand"), ("link", "flowrate"), ("link", "status")):
                                a, b = getattr(r1, grp)[k].values.astype(float), getattr(rr, grp)[k].values.astype(float)
                                worst = max(worst, _absdiff_max(a, b))
                        if not same_index or worst > 1e-6:
                            kf = known_bounded("C11", "C11.%s[%s]" % (tag, name))
                            if kf is not None:
                                known.append("%s [%s]" % (kf["what_fails"][:150], name))
                            else:
                                failures.append(dict(model=name, check=tag, same_time_index=same_index, max_abs_difference=worst))
                if len(samples) < 3:
                    samples.append(dict(model=name, simulator=simname, steps=len(r1.node["head"].index)))
        return dict(evaluations=evals, distinct_nontrivial=len(distinct), failures=failures[:10], samples=samples, exhaustive=False, known=sorted(set(known)),
                    scope="shard %d/%d: example networks (+ three option corners on the first three: report step below / not a multiple of the hydraulic step, PDD with "
                          "a required pressure below EPANET's limit) x {WNTRSimulator, EpanetSimulator}: to_dict identical before/after the run; "
                          "WNTRSimulator: reset_initial_values + rerun and a deepcopy reproduce heads, demands, flows, statuses (1e-6)" % (shard, nshards))
    return run


CONTRACTS = [Contract("wntr.network.model:WaterNetworkModel.reset_initial_values", P + ["C10", "C08", "C06"], [_reset_case(k) for k in ("junction", "tank", "reservoir", "pipe", "head_pump", "power_pump", "valve")],
                      trusted=["RegInv (C14): nodes(Type) / links(Type) / controls() enumerate the registered elements"])]
LEMMAS = [Lemma("C11.simulation_frame", P, _frame_lemma,
                uses=["wntr.network.controls:ControlAction.__init__#init:*#writes_the_simulation_side_attribute_not_the_definition"],
                note="syntactic write set of the simulation code vs attributes read by the real to_dict (traced); setattr with a computed name is covered by the ControlAction contract")]
NSH = 6
BOUNDED = [Bounded("C11.definition_and_rerun[%d/%d]" % (i, NSH), P, _bounded(i, NSH), kind="enumerated models, run-time contract") for i in range(NSH)]
