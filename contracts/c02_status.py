"""C02/C05 — internal status conditions (check valves, pumps, PRV/PSV/FCV) against the EPANET status
state machines (cvstatus / pumpstatus / prvstatus / psvstatus / fcvstatus of EPANET 2.2, transcribed once)."""
import types

import z3

from pyvc.core import Contract, Case
from pyvc.values import SV, real_val
from wntr.network import LinkStatus
from wntr.network import controls as C
from wntr.network.elements import Junction, Pipe, PRValve, PSValve, FCValve, HeadPump, PowerPump, Curve

P = ["C02", "C05"]
HTOL = real_val(0.0001524)
QTOL = real_val(2.83168e-6)
CL, OP, AC = 0, 1, 2
class _ST:
    def __getitem__(self, s):
        return CL if s is LinkStatus.Closed else (OP if s is LinkStatus.Open else AC)


ST = _ST()


def ite(c, a, b):
    return z3.If(c, z3.IntVal(a) if isinstance(a, int) else a, z3.IntVal(b) if isinstance(b, int) else b)


def prv_next(s, q, h1, h2, hset, r):
    hml = r * q * q
    if s == AC:
        return ite(q < -QTOL, CL, ite(h1 - hml < hset - HTOL, OP, AC))
    if s == OP:
        return ite(q < -QTOL, CL, ite(h2 >= hset + HTOL, AC, OP))
    return ite(z3.And(h1 >= hset + HTOL, h2 < hset - HTOL), AC, ite(z3.And(h1 < hset - HTOL, h1 > h2 + HTOL), OP, CL))


def psv_next(s, q, h1, h2, hset, r):
    hml = r * q * q
    if s == AC:
        return ite(q < -QTOL, CL, ite(h2 + hml > hset + HTOL, OP, AC))
    if s == OP:
        return ite(q < -QTOL, CL, ite(h1 < hset - HTOL, AC, OP))
    return ite(z3.And(h2 > hset + HTOL, h1 > h2 + HTOL), OP, ite(z3.And(h1 >= hset + HTOL, h1 > h2 + HTOL), AC, CL))


def fcv_next(s, q, h1, h2, setting):
    # s in {OP, AC}; WNTR re-activates at setting + Qtol
    return ite(h1 - h2 < -HTOL, OP, ite(q < -QTOL, OP, ite(z3.And(s == OP, q >= setting + QTOL), AC, s)))


def _valve_case(cond_cls, vcls, attr, s, target_state, nxt):
    def build(cx):
        q, h1, h2, setg, z1, z2, r = [cx.real(n) for n in ("q", "h1", "h2", "setting", "z1", "z2", "r")]
        cx.assume(cx.t(r) >= 0)
        sn = cx.obj(Junction, _name="a", _head=h1, _elevation=z1)
        en = cx.obj(Junction, _name="b", _head=h2, _elevation=z2)
        v = cx.obj(vcls, _link_name="v", _internal_status=s, _flow=q, _setting=setg, _start_node=sn, _end_node=en)
        cond = cx.obj(cond_cls, _start_node=sn, _end_node=en, _r=r, _backtrack=0, **{attr: v})
        cx.target(cond_cls.evaluate, cond)

        def post(out):
            if not out.returned:
                return []
            res = out.value
            rz = res.t if isinstance(res, SV) else z3.BoolVal(bool(res))
            Q, H1, H2, S, Z1, Z2, R_ = [cx.t(x) if isinstance(x, SV) else real_val(x) for x in (q, h1, h2, setg, z1, z2, r)]
            if vcls is PRValve:
                n = prv_next(ST[s], Q, H1, H2, S + Z2, R_)
            elif vcls is PSValve:
                n = psv_next(ST[s], Q, H1, H2, S + Z1, R_)
            else:
                n = fcv_next(ST[s], Q, H1, H2, S)
            want = z3.And(n == target_state, ST[s] != target_state)
            if cond_cls is C._OpenFCVCondition:
                # re-opening an already open FCV is a no-op: the condition does not look at the current state
                want = z3.Or(H1 - H2 < -HTOL, Q < -QTOL)
            return [("fires_iff_epanet_status_machine_moves_to_target_state", rz == want)]
        cx.ensure(post)
    return Case("%s,internal=%s" % (cond_cls.__name__, s.name), build)


_valve_cases = []
for (ccls, vcls, attr, tgt) in (
        (C._ClosePRVCondition, PRValve, "_prv", CL), (C._OpenPRVCondition, PRValve, "_prv", OP), (C._ActivePRVCondition, PRValve, "_prv", AC),
        (C._ClosePSVCondition, PSValve, "_psv", CL), (C._OpenPSVCondition, PSValve, "_psv", OP), (C._ActivePSVCondition, PSValve, "_psv", AC)):
    for s in (LinkStatus.Active, LinkStatus.Open, LinkStatus.Closed):
        _valve_cases.append(_valve_case(ccls, vcls, attr, s, tgt, None))
for (ccls, tgt) in ((C._OpenFCVCondition, OP), (C._ActiveFCVCondition, AC)):
    for s in (LinkStatus.Active, LinkStatus.Open):
        _valve_cases.append(_valve_case(ccls, FCValve, "_fcv", s, tgt, None))


# --- check valves ------------------------------------------------------------------------------
def _cv_case(cond_cls, is_close):
    def build(cx):
        q, h1, h2 = cx.real("q"), cx.real("h1"), cx.real("h2")
        sn = cx.obj(Junction, _name="a", _head=h1)
        en = cx.obj(Junction, _name="b", _head=h2)
        cv = cx.obj(Pipe, _link_name="p", _flow=q, _start_node=sn, _end_node=en)
        cond = cx.obj(cond_cls, _cv=cv, _start_node=sn, _end_node=en, _backtrack=0)
        cx.target(cond_cls.evaluate, cond)

        def post(out):
            if not out.returned:
                return []
            res = out.value
            rz = res.t if isinstance(res, SV) else z3.BoolVal(bool(res))
            Q, dh = cx.t(q), cx.t(h1) - cx.t(h2)
            adh = z3.If(dh >= 0, dh, -dh)
            # EPANET cvstatus: |dh|>Htol: dh<-Htol -> CLOSED; q<-Qtol -> CLOSED; else OPEN.  |dh|<=Htol: q<-Qtol -> CLOSED; else unchanged
            closes = z3.If(adh > HTOL, z3.Or(dh < -HTOL, Q < -QTOL), Q < -QTOL)
            opens = z3.And(adh > HTOL, z3.Not(z3.Or(dh < -HTOL, Q < -QTOL)))
            if is_close:
                return [("closes_iff_epanet_cvstatus_closes", rz == closes),
                        ("open_cv_never_has_reverse_flow_beyond_Qtol", z3.Implies(z3.Not(rz), Q >= -QTOL)),
                        ("open_cv_never_has_adverse_head_beyond_Htol", z3.Implies(z3.Not(rz), dh >= -HTOL))]
            return [("opens_iff_epanet_cvstatus_opens", rz == opens),
                    ("never_opens_and_closes_together", z3.Not(z3.And(rz, closes)))]
        cx.ensure(post)
    return Case(cond_cls.__name__, build)


# --- pumps ---------------------------------------------------------------------------------------
def _pump_case(cond_cls, head, is_close):
    def build(cx):
        h1, h2 = cx.real("h1"), cx.real("h2")
        q = cx.real("flow")
        sn = cx.obj(Junction, _name="a", _head=h1)
        en = cx.obj(Junction, _name="b", _head=h2)
        if head:
            A = cx.real("A")
            cx.assume(cx.t(A) > 0)
            curve = cx.obj(Curve, _name="c", _points=[(1.0, 1.0)])
            pts = curve.fields["_points"] if cx.mode == "symbolic" else curve._points
            ts = cx.obj(types.SimpleNamespace, at=(lambda t: 1.0))
            pump = cx.obj(HeadPump, _link_name="p", _start_node=sn, _end_node=en, _pump_curve_name="c", _curve_reg={"c": curve},
                          _curve_coeffs=[A, 1.0, 2.0], _coeffs_curve_points=pts, _speed_timeseries=ts, _flow=q)
            wn = cx.obj(types.SimpleNamespace, sim_time=0)
            cond = cx.obj(cond_cls, _pump=pump, _start_node=sn, _end_node=en, _backtrack=0, _wn=wn)
            hmax = cx.t(A)
        else:
            pump = cx.obj(PowerPump, _link_name="p", _start_node=sn, _end_node=en, _flow=q)
            cond = cx.obj(cond_cls, _pump=pump, _start_node=sn, _end_node=en, _backtrack=0)
            hmax = None
        cx.target(cond_cls.evaluate, cond)

        def post(out):
            if not out.returned:
                return []
            res = out.value
            rz = res.t if isinstance(res, SV) else z3.BoolVal(bool(res))
            dh = cx.t(h2) - cx.t(h1)
            over = dh > (hmax + HTOL if hmax is not None else real_val(1e10 + 0.0001524))     # EPANET pumpstatus: head gain above shutoff head -> XHEAD (closed)
            if head and is_close:
                # from the property text: a pump never reports reverse flow beyond the flow tolerance - an open head pump that runs backwards is closed
                # (its head curve is continued below zero flow by an almost flat line, so the head test alone never catches it)
                backwards = cx.t(q) < -QTOL
                return [("closes_iff_gain_exceeds_shutoff_head_or_the_pump_runs_backwards", rz == z3.Or(over, backwards)),
                        ("reverse_flow_beyond_the_tolerance_closes_the_pump", z3.Implies(backwards, rz))]
            return [("closes_iff_gain_exceeds_shutoff_head" if is_close else "opens_iff_gain_within_shutoff_head",
                     rz == (over if is_close else z3.Not(over)))]
        cx.ensure(post)
    return Case(cond_cls.__name__, build)


def _at1(interp, args, kw):
    return 1.0


CONTRACTS = [
    Contract("wntr.network.controls:_Close/_Open/_Active{PRV,PSV,FCV}Condition.evaluate", P, _valve_cases),
    Contract("wntr.network.controls:_CloseCVCondition/_OpenCVCondition.evaluate", P,
             [_cv_case(C._CloseCVCondition, True), _cv_case(C._OpenCVCondition, False)]),
    Contract("wntr.network.controls:_Close/_Open{Head,Power}PumpCondition.evaluate", P,
             [_pump_case(C._ClosePowerPumpCondition, False, True), _pump_case(C._OpenPowerPumpCondition, False, False),
              _pump_case(C._CloseHeadPumpCondition, True, True), _pump_case(C._OpenHeadPumpCondition, True, False)],
             trusted=["pump speed pattern multiplier is 1.0 (other speeds raise NotImplementedError)"]),
]


# ---------------------------------------------------------------------------- the status a link reports / is modelled with

def _status_table_case(cls_name):
    """status as a function of (user status, internal status), for every combination.  Pipes and pumps: closed by the simulator
    (check valve, tank limit, pump shut-off) means Closed, otherwise the user's status.  Valves: a status fixed by the user / a control
    (Closed or Open) overrides the valve's own regulation; only an Active valve shows its internal state."""
    def build(cx):
        from wntr.network import LinkStatus
        from wntr.network import elements as EL
        cls = getattr(EL, cls_name.split(",")[0])
        S = LinkStatus
        table = []
        extra = dict(_check_valve=cls_name.endswith("check_valve")) if cls is EL.Pipe else {}       # (a real Pipe always carries the flag)
        for u in (S.Closed, S.Open, S.Active):
            for i in (S.Closed, S.Open, S.Active):
                link = cx.obj(cls, _link_name="L", _user_status=u, _internal_status=i, **extra)
                table.append((u, i, link))
        cx.target(_all_statuses, [t[2] for t in table])

        def post(out):
            if not out.returned:
                return []
            posts = []
            for (u, i, _), got in zip(table, out.value):
                if cls_name.endswith("Valve"):
                    want = u if u in (S.Closed, S.Open) else i
                else:
                    want = S.Closed if i == S.Closed else u
                posts.append(("status_for_user_%s_internal_%s_is_%s" % (u.name, i.name, want.name), got is want or got == want))
            return posts
        cx.ensure(post)
    return Case(cls_name, build, crosscheck=False)


def _all_statuses(links):
    # harness text: read the property of every link
    return [l.status for l in links]


CONTRACTS.append(Contract("wntr.network.elements:Pipe/Pump/Valve.status", ["C02", "C05", "C09"],
                          [_status_table_case(c) for c in ("Pipe", "Pipe,with_a_check_valve", "HeadPump", "PowerPump", "PRValve", "PSValve", "FCValve", "TCValve")],
                          interpret_always=(_all_statuses,), note="the full 3 x 3 table of (user status, internal status) for every link class the simulator supports"))


# ---------------------------------------------------------------------------- "pumps and check-valve pipes never report reverse flow beyond the flow tolerance"

def _no_reverse_flow_lemma():
    """Composition: (i) run_sim saves a step only after the post-solve controls ran on the stored state and changed nothing (protocol contract, C16 / C05), so
    for a link reported open the condition of its closing control is false on the reported state; (ii) the closing conditions of head pumps and check-valve
    pipes are true whenever the stored flow is below -Qtol (their contracts above); (iii) a closed link reports zero flow (status tables + head-loss builders).
    Power pumps: the power law (end head - start head) * q = P / (rho g) > 0 together with flows running from high to low head elsewhere excludes q < 0 only as a
    fact about the network solution - not decided here."""
    q, qtol = z3.Real("reported_flow"), z3.Real("Qtol")
    is_open, closing_condition_true, control_changed_something = z3.Bool("reported_open"), z3.Bool("closing_condition_true"), z3.Bool("post_solve_controls_changed_something")
    return [("an_open_head_pump_or_check_valve_pipe_reports_no_reverse_flow_beyond_the_tolerance",
             [qtol > 0,
              z3.Implies(q < -qtol, closing_condition_true),                                       # (ii)
              z3.Implies(z3.And(is_open, closing_condition_true), control_changed_something),      # the closing control acts on an open link whose condition holds
              z3.Not(control_changed_something),                                                   # (i)
              z3.Implies(z3.Not(is_open), q == 0)],                                                # (iii)
             q >= -qtol)]


from pyvc.runner import Lemma
LEMMAS = [Lemma("C02.no_reverse_flow", ["C02"], _no_reverse_flow_lemma,
                uses=["_CloseHeadPumpCondition.evaluate#reverse_flow_beyond_the_tolerance_closes_the_pump", "_CloseCVCondition.evaluate#open_cv_never_has_reverse_flow_beyond_Qtol",
                      "WNTRSimulator.run_sim#saved_state_is_a_fixed_point_of_postsolve_and_feasibility_controls", "WNTRSimulator.run_sim#postsolve_controls_see_a_freshly_stored_solution", "Pipe/Pump/Valve.status", "head-loss builders: closed link => flow = 0"],
                note="head pumps and check-valve pipes; power pumps not decided (see the lemma's docstring)")]


# ---------------------------------------------------------------------------- bounded: the laws on the reported results of real runs

from pyvc.runner import Bounded


def _laws(i, n):
    def run(tier, seed):
        import sys, os
        sys.path.insert(0, os.path.dirname(os.path.dirname(os.path.abspath(__file__))))
        from bounded import c02_laws
        return c02_laws.run(tier, seed, i, n)
    return run


BOUNDED = [Bounded("C02.laws_on_runs[%d/4]" % i, ["C02"], _laws(i, 4), kind="real simulator on listed / generated networks (not exhaustive)") for i in range(4)]
