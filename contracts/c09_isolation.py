"""C09 — isolated junctions: maintenance of the internal connectivity graph and the flagging of isolated elements.

Proved (pyvc, from the real source):
  * WNTRSimulator._update_internal_graph: after it runs, the csr entry of a node pair is 1 iff some link between the
    pair has status != Closed (single links through the change tracker, parallel links recomputed every time);
  * WNTRSimulator._get_isolated_junctions_and_links (Python part; the C++ search is a contract stub): previous flags
    are cleared, exactly the junctions whose indicator stayed 1 and all their links are flagged, the model updater is
    told the symmetric difference, the new sets are remembered;
  * hydraulics.update_model_for_isolated_junctions_and_links: the updater is called for exactly the elements whose
    isolation changed (so reconnecting restores the normal rows).
  The builders' isolated branches and the zeroing in store/save results are in builders.py / c01_results.py.
Bounded (labelled, never counted as proved): _initialize_internal_graph (scipy csr layout) + the C++
  check_for_isolated_junctions end to end, by simulating every small network of a stated scope and comparing each
  reported step with a reference breadth-first search.
"""
import itertools
import types

import numpy as np
import z3

from pyvc.core import Contract, Case
from pyvc.runner import Bounded
from pyvc.values import SV, SymObj, SymMap, NativeModel, GenericIter
from pyvc import library

import wntr
import wntr.sim.core as core
import wntr.sim.hydraulics as hyd
from wntr.sim.core import WNTRSimulator
from wntr.network import LinkStatus
from wntr.network.elements import Junction, Pipe, PRValve, HeadPump, Pump, Valve
from wntr.utils.ordered_set import OrderedSet
from contracts._net import mk_node, mk_link

P = ["C09"]
ST = {"open": (LinkStatus.Open, LinkStatus.Active), "closed": (LinkStatus.Closed, LinkStatus.Active),
      "internally_closed": (LinkStatus.Open, LinkStatus.Closed), "active_valve": (LinkStatus.Active, LinkStatus.Active),
      "running_head_pump": (LinkStatus.Open, LinkStatus.Active), "running_power_pump": (LinkStatus.Open, LinkStatus.Active),
      "pump_shut_by_the_simulator": (LinkStatus.Open, LinkStatus.Closed), "valve_closed_by_a_control": (LinkStatus.Closed, LinkStatus.Active)}
LINK_CLASS = {"active_valve": PRValve, "running_head_pump": HeadPump, "pump_shut_by_the_simulator": HeadPump, "valve_closed_by_a_control": PRValve}


def _is_closed(s):
    return s in ("closed", "internally_closed", "pump_shut_by_the_simulator", "valve_closed_by_a_control")


class Tracker(NativeModel):
    def __init__(self, changes):
        self.changes, self.reset = changes, []

    def get_changes(self, ref_point=None):
        assert ref_point == "graph"
        return list(self.changes)

    def reset_reference_point(self, key=None):
        self.reset.append(key)


def _update_graph_case(s_single, changed, s_a, s_b, s_c):
    """one single link S (data index 4,5) and one node pair with three parallel links A, B, C (shared index 0,1)."""
    def build(cx):
        def link(name, st, cls=Pipe):
            u, i = ST[st]
            return mk_link(cx, PRValve if st == "active_valve" else cls, name, None, None, _user_status=u, _internal_status=i)
        S, A, B, C_ = link("S", s_single), link("A", s_a), link("B", s_b), link("C", s_c)
        old = {k: cx.int("old%d" % k) for k in (0, 1, 4, 5, 8)}
        data = SymMap(lambda k: z3.BoolVal(True), lambda k: SV(z3.Int("data_other"), "int"), label="csr.data", keykind="int")
        for k, v in old.items():
            data.overlay.append((k, v))
        ndx = {S: (4, 5), A: (0, 1), B: (0, 1), C_: (0, 1)}
        tr = Tracker([(S, "status")] if changed else [])
        sim = cx.obj(WNTRSimulator, _internal_graph=types.SimpleNamespace(data=data), _map_link_to_internal_graph_data_ndx=ndx,
                     _change_tracker=tr, _node_pairs_with_multiple_links={(0, 1): [A, B, C_]})
        # precondition for the unchanged single link: its entry already agrees with its status (invariant of the graph)
        if not changed:
            want = 0 if _is_closed(s_single) else 1
            cx.assume(cx.t(old[4]) == want, cx.t(old[5]) == want)
        cx.target(WNTRSimulator._update_internal_graph, sim)

        def post(out):
            if not out.returned:
                return []
            def at(k):
                return library.as_int(cx.interp.getitem(data, k))
            single = 0 if _is_closed(s_single) else 1
            par = 0 if all(_is_closed(s) for s in (s_a, s_b, s_c)) else 1
            return [("single_link_entry_is_1_iff_not_closed", z3.And(at(4) == single, at(5) == single)),
                    ("parallel_links_entry_is_1_iff_some_link_not_closed", z3.And(at(0) == par, at(1) == par)),
                    ("unrelated_entries_untouched", at(8) == cx.t(old[8])),
                    ("graph_reference_point_reset", tr.reset == ["graph"])]
        cx.ensure(post)
    return Case("single=%s,changed=%s,parallel=%s/%s/%s" % (s_single, changed, s_a, s_b, s_c), build, crosscheck=False)


_kinds = ["open", "closed", "internally_closed", "active_valve"]
_upd_cases = [_update_graph_case(s, ch, a, b, c) for s in ("open", "closed", "active_valve") for ch in (True, False)
              for (a, b, c) in (("closed", "closed", "closed"), ("closed", "active_valve", "closed"), ("open", "closed", "closed"),
                                ("closed", "closed", "open"), ("internally_closed", "closed", "active_valve"),
                                ("internally_closed", "internally_closed", "closed"), ("open", "open", "open"))]


# ---------------------------------------------------------------------------- _initialize_internal_graph

def _init_graph_case(s_single, s_a, s_b, reverse_b):
    """R(2) -S- J0(0) =A,B= J1(1): a single link and a node pair with two parallel links (B optionally drawn J1 -> J0).
    Statuses are the stored ones (a continued run starts from whatever the paused run left: internally closed links too)."""
    def build(cx):
        J0, J1, R = mk_node(cx, Junction, "J0"), mk_node(cx, Junction, "J1"), mk_node(cx, Junction, "R")

        def link(name, st, a, b):
            u, i = ST[st]
            from wntr.network.elements import PowerPump
            cls = PowerPump if st == "running_power_pump" else LINK_CLASS.get(st, Pipe)
            # the status a link STARTED with says the opposite of its current one (a control changed it; the run was paused and is continued)
            return mk_link(cx, cls, name, a, b, _user_status=u, _internal_status=i, _initial_status=LinkStatus.Open if _is_closed(st) else LinkStatus.Closed)
        S, A = link("S", s_single, R, J0), link("A", s_a, J0, J1)
        B = link("B", s_b, J1, J0) if reverse_b else link("B", s_b, J0, J1)
        links = {"S": S, "A": A, "B": B}
        wn = WnIso({"J0": J0, "J1": J1, "R": R}, links, {"J0": ["S", "A", "B"], "J1": ["A", "B"], "R": ["S"]})
        sim = cx.obj(WNTRSimulator, _wn=wn, _int_dtype=np.int64, _node_name_to_id={"J0": 0, "J1": 1, "R": 2},
                     _node_id_to_name={0: "J0", 1: "J1", 2: "R"})
        cx.target(WNTRSimulator._initialize_internal_graph, sim)

        def post(out):
            if not out.returned:
                return []
            g = sim.fields["_internal_graph"]
            dense = g.toarray()
            single = 0 if _is_closed(s_single) else 1
            par = 0 if (_is_closed(s_a) and _is_closed(s_b)) else 1
            want = np.zeros((3, 3), dtype=int)
            want[0, 2] = want[2, 0] = single
            want[0, 1] = want[1, 0] = par
            ndx = sim.fields["_map_link_to_internal_graph_data_ndx"]

            def points_at(k, i, j):     # data index k is the stored entry (i, j) of the csr matrix
                return g.indptr[i] <= k < g.indptr[i + 1] and g.indices[k] == j
            ids = {"S": (2, 0), "A": (0, 1), "B": (1, 0) if reverse_b else (0, 1)}
            ndx_ok = all(points_at(ndx[l][0], *ids[n]) and points_at(ndx[l][1], *ids[n][::-1]) for n, l in links.items())
            multi = sim.fields["_node_pairs_with_multiple_links"]
            multi_ok = len(multi) == 1 and list(multi.keys())[0] in ((0, 1), (1, 0)) and \
                len(list(multi.values())[0]) == 2 and {id(x) for x in list(multi.values())[0]} == {id(A), id(B)}
            return [("entry_of_a_node_pair_is_1_iff_some_link_between_the_pair_is_not_closed_by_user_or_simulator", bool((dense == want).all())),
                    ("every_link_is_mapped_to_the_two_stored_entries_of_its_node_pair", bool(ndx_ok)),
                    ("stored_entries_per_node_are_its_distinct_neighbours", list(sim.fields["_number_of_connections"]) == [2, 1, 1]),
                    ("node_pairs_with_several_links_listed_once_with_exactly_their_links", bool(multi_ok)),
                    ("sources_are_the_tanks_and_reservoirs", list(sim.fields["_source_ids"]) == [2])]
        cx.ensure(post)
    return Case("single=%s,parallel=%s/%s%s" % (s_single, s_a, s_b, ",B_reversed" if reverse_b else ""), build, crosscheck=False)


_init_cases = [_init_graph_case(s, a, b, rev) for s in ("open", "closed", "internally_closed", "active_valve")
               for a in ("open", "closed", "internally_closed", "active_valve") for b in ("open", "closed", "internally_closed")
               for rev in (False, True)] + \
              [_init_graph_case(s, a, b, rev) for (s, a, b) in (("running_head_pump", "closed", "closed"), ("running_power_pump", "open", "closed"),
                                                                  ("pump_shut_by_the_simulator", "open", "open"), ("open", "running_head_pump", "closed"),
                                                                  ("closed", "closed", "running_head_pump"), ("open", "running_power_pump", "internally_closed"),
                                                                  ("valve_closed_by_a_control", "open", "closed"), ("open", "valve_closed_by_a_control", "closed"),
                                                                  ("active_valve", "closed", "valve_closed_by_a_control"))
               for rev in (False, True)]


# ---------------------------------------------------------------------------- _get_isolated_junctions_and_links

class WnIso(NativeModel):
    def __init__(self, nodes, links, adj):
        self.nodes_, self.links_, self.adj = nodes, links, adj
        self.num_nodes = len(nodes)
        self.log = []

    def get_node(self, n):
        return self.nodes_[n]

    def get_link(self, l):
        return self.links_[l]

    def get_links_for_node(self, n, flag="ALL"):
        return list(self.adj[n])

    def _of(self, *classes):
        return [(n, l) for n, l in self.links_.items() if issubclass(l.cls, classes)]

    def pipes(self):
        return self._of(Pipe)

    def pumps(self):
        return self._of(Pump)

    def valves(self):
        return self._of(Valve)

    def links(self):
        return list(self.links_.items())

    def tanks(self):
        return []

    def reservoirs(self):
        return [("R", self.nodes_["R"])]


def _iso_models(log):
    def build():
        m = library.build_models()

        def search(interp, args, kw):
            # contract of the C++ search (bounded stand-in C09.end_to_end): indicator[i] stays 1 iff node i is not
            # reachable from a source through entries with data == 1. Here: any outcome for the two junction ids.
            ind = args[1]
            p = interp.path
            for i in range(len(ind)):
                if i == 2:
                    ind[i] = 0    # id 2 is the reservoir
                    continue
                ind[i] = 1 if p.branch(p.fresh("isolated%d" % i, "bool").t) else 0
            return None
        m.register(core.check_for_isolated_junctions, search, trusted="C++ check_for_isolated_junctions (bounded stand-in C09.end_to_end)")

        def upd(interp, args, kw):
            args[1].log.append(tuple(list(x) for x in args[3:7]))    # args[1] is the per-path wn stub
            return None
        m.register(hyd.update_model_for_isolated_junctions_and_links, upd,
                   verified_by="wntr.sim.hydraulics:update_model_for_isolated_junctions_and_links")
        return m
    return build


def _get_isolated_case(prev_j, prev_l):
    log = []

    def build(cx):
        del log[:]
        J0 = mk_node(cx, Junction, "J0", _is_isolated=("J0" in prev_j))
        J1 = mk_node(cx, Junction, "J1", _is_isolated=("J1" in prev_j))
        R = mk_node(cx, Junction, "R", _is_isolated=False)
        links = {n: mk_link(cx, Pipe, n, None, None, _is_isolated=(n in prev_l)) for n in ("L0", "L1", "L2")}
        # R -L0- J0 -L1- J1 -L2- J0 (L1, L2 parallel)
        adj = {"J0": ["L0", "L1", "L2"], "J1": ["L1", "L2"], "R": ["L0"]}
        wn = WnIso({"J0": J0, "J1": J1, "R": R}, links, adj)
        ps_j, ps_l = OrderedSet(prev_j), OrderedSet(prev_l)
        graph = types.SimpleNamespace(indptr=np.array([0]), indices=np.array([0]), data=np.array([0]))
        sim = cx.obj(WNTRSimulator, _wn=wn, _prev_isolated_junctions=ps_j, _prev_isolated_links=ps_l, _int_dtype=np.int64,
                     _source_ids=np.array([2]), _internal_graph=graph, _number_of_connections=np.array([0]),
                     _node_id_to_name={0: "J0", 1: "J1", 2: "R"}, _model="m", _model_updater="u")
        cx.target(WNTRSimulator._get_isolated_junctions_and_links, sim)
        cx.sim, cx.nodes, cx.links = sim, (J0, J1), links

        def post(out):
            if not out.returned:
                return []
            nj, nl = out.value
            iso = [bool(n.fields["_is_isolated"]) for n in (J0, J1)]
            want_links = set()
            if iso[0]:
                want_links |= {"L0", "L1", "L2"}
            if iso[1]:
                want_links |= {"L1", "L2"}
            got_links = {n for n, l in links.items() if l.fields["_is_isolated"]}
            newj = sim.fields["_prev_isolated_junctions"]
            newl = sim.fields["_prev_isolated_links"]
            # which outcome of the search this path is: read back from the path condition via the flags written
            return [("links_of_isolated_junctions_flagged_and_no_others", got_links == want_links),
                    ("reservoir_never_flagged", R.fields["_is_isolated"] is False),
                    ("remembered_sets_are_the_flagged_elements", list(newj) == [n for n, f in zip(("J0", "J1"), iso) if f] and set(newl) == want_links),
                    ("counts_returned", nj == sum(iso) and nl == len(want_links)),
                    ("model_updater_told_previous_and_new_sets", len(wn.log) == 1 and set(wn.log[0][0]) == set(prev_j) and set(wn.log[0][1]) == set(prev_l)
                     and set(wn.log[0][2]) == set(newj) and set(wn.log[0][3]) == set(newl))]
        cx.ensure(post)
    return Case("prev_junctions=%s,prev_links=%s" % (sorted(prev_j), sorted(prev_l)), build, crosscheck=False), log


_iso_contracts = []
for pj, pl in (((), ()), (("J1",), ("L1", "L2")), (("J0", "J1"), ("L0", "L1", "L2"))):
    case, log = _get_isolated_case(pj, pl)
    _iso_contracts.append(Contract("wntr.sim.core:WNTRSimulator._get_isolated_junctions_and_links", P + ["C01", "C10"], [case], models=_iso_models(log),
                                   note="two junctions + a source, parallel links; every outcome of the search (4) x three previous states",
                                   trusted=["C++ check_for_isolated_junctions (bounded stand-in C09.end_to_end)",
                                            "RegInv (C14): get_links_for_node lists the links at the junction"]))


# ---------------------------------------------------------------------------- update_model_for_isolated_junctions_and_links

class Upd(NativeModel):
    def __init__(self):
        self.calls = []

    def update(self, m, wn, obj, attr):
        self.calls.append((obj, attr))


def _update_model_case(pj, pl, nj, nl):
    def build(cx):
        names = ["a", "b", "c"]
        wn = types.SimpleNamespace(get_node=lambda n: "node:" + n, get_link=lambda l: "link:" + l)
        upd = Upd()
        cx.target(hyd.update_model_for_isolated_junctions_and_links, "m", wn, upd, OrderedSet(pj), OrderedSet(pl), OrderedSet(nj), OrderedSet(nl))

        def post(out):
            if not out.returned:
                return []
            want = {("node:" + n, "_is_isolated") for n in set(pj) ^ set(nj)} | {("link:" + l, "_is_isolated") for l in set(pl) ^ set(nl)}
            return [("rows_rebuilt_for_exactly_the_elements_whose_isolation_changed", set(upd.calls) == want and len(upd.calls) == len(want))]
        cx.ensure(post)
    return Case("prev=%s/%s,new=%s/%s" % (pj, pl, nj, nl), build, crosscheck=False)


_um_cases = [_update_model_case(a, b, c, d) for a, c in ((("a",), ("a", "b")), ((), ("a",)), (("a", "b"), ()), (("a",), ("a",)))
             for b, d in ((("x",), ()), ((), ("x", "y")), (("x",), ("x",)))]


# ---------------------------------------------------------------------------- bounded: end to end on small networks

def _end_to_end(shard, nshards):
    def run(tier, seed):
        import json
        import os
        import subprocess
        root = os.path.dirname(os.path.dirname(os.path.abspath(__file__)))
        scratch = os.environ["PYVC_EXT_DIR"]       # C++ extensions rebuilt from /repo's current sources by the runner
        env = dict(os.environ, PYTHONPATH=scratch, PYTHONWARNINGS="ignore")
        r = subprocess.run(["/venv/bin/python", os.path.join(root, "bounded", "c09_end_to_end.py"), tier, str(seed), str(shard), str(nshards)],
                           capture_output=True, text=True, env=env, cwd=scratch)
        if r.returncode != 0:
            raise RuntimeError("end-to-end harness crashed: " + r.stderr[-800:])
        out = json.loads(r.stdout.strip().splitlines()[-1])
        if not out.get("extension", "").startswith(scratch):
            raise RuntimeError("harness did not run against the rebuilt extension: %r" % out.get("extension"))
        return out
    return run


CONTRACTS = [
    Contract("wntr.sim.core:WNTRSimulator._update_internal_graph", P + ["C01", "C02"], _upd_cases,
             note="one single link + one node pair with three parallel links; every listed status combination; csr data is a symbolic array",
             trusted=["ControlChangeTracker.get_changes('graph') lists the (link, 'status') pairs whose status differs from the reference point (C05)",
                      "_initialize_internal_graph leaves data[ndx] = 1 iff some link of the pair is not closed (bounded stand-in C09.end_to_end)"]),
    Contract("wntr.sim.core:WNTRSimulator._initialize_internal_graph", P + ["C10", "C01", "C02"], _init_cases,
             note="fixed topology (a single link and a node pair with two parallel links, either orientation), every stored-status "
                  "combination incl. links closed internally by the simulator (the state a paused run leaves); scipy.sparse.csr_matrix and "
                  "_get_csr_data_index are executed natively on the concrete triplets of each case",
             trusted=["scipy.sparse.csr_matrix / numpy executed natively on concrete data (not modelled)",
                      "RegInv (C14): typed iterators and get_links_for_node enumerate the registered links"]),
] + _iso_contracts + [
    Contract("wntr.sim.hydraulics:update_model_for_isolated_junctions_and_links", P + ["C01", "C10"], _um_cases),
]

NSH = 8
BOUNDED = [Bounded("C09.end_to_end[%d/%d]" % (i, NSH), P, _end_to_end(i, NSH), kind="exhaustive-small-scope (real Python + C++ extension rebuilt from the current sources)", needs_ext=True)
           for i in range(NSH)]
